#!/bin/bash
# Build the framework from files on disk only (offline): library variants from /repo's working tree
# and every check binary. Each ./check invocation rebuilds on its own when /repo or /verif changed.
set -e
ROOT=$(cd "$(dirname "$0")" && pwd)
cd "$ROOT"
mkdir -p build evidence replays
./build.sh asan
./build.sh fast
if ls checks/*.cpp | xargs grep -l '^// variant: tsan' >/dev/null 2>&1; then ./build.sh tsan; fi
# compile all check binaries in parallel (the --show mode only generates a plan)
ls checks/c*.cpp | sed 's|checks/||; s|\.cpp||' | tr 'a-z' 'A-Z' | xargs -P 8 -I{} sh -c './check {} --show 0 >/dev/null || { echo "setup: building {} failed" >&2; exit 1; }'
echo "setup ok"
