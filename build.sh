#!/bin/bash
# Build the libOPNMIDI sources of /repo's *current working tree* into
# /verif/build/<variant>/libopn.a with the verification hooks enabled.
#   variant: asan | tsan | fast | asanfs (asan + stdio --wrap is a link-time matter, same objects)
# The build is keyed by a content hash of src/ + include/ so an unchanged tree is not
# recompiled, and serialised with flock so concurrent checks share one build.
set -e
VARIANT=${1:-asan}
REPO=${VERIF_REPO:-/repo}
ROOT=$(cd "$(dirname "$0")" && pwd)
OUT=$ROOT/build/$VARIANT
mkdir -p "$OUT"
exec 9>"$OUT/.lock"
flock 9

SRCS_CXX="src/chips/gens/Ym2612.cpp src/chips/gens_opn2.cpp src/chips/mame_opn2.cpp src/chips/mame_opna.cpp
 src/chips/mamefm/fm.cpp src/chips/mamefm/resampler.cpp src/chips/mamefm/ymdeltat.cpp
 src/chips/np2/fmgen_file.cpp src/chips/np2/fmgen_fmgen.cpp src/chips/np2/fmgen_fmtimer.cpp src/chips/np2/fmgen_opna.cpp
 src/chips/np2/fmgen_psg.cpp src/chips/np2_opna.cpp src/chips/nuked_opn2.cpp src/chips/vgm_file_dumper.cpp
 src/chips/ymfm/ymfm_adpcm.cpp src/chips/ymfm/ymfm_misc.cpp src/chips/ymfm/ymfm_opn.cpp src/chips/ymfm/ymfm_pcm.cpp
 src/chips/ymfm/ymfm_ssg.cpp src/chips/ymfm_opn2.cpp src/chips/ymfm_opna.cpp
 src/opnmidi.cpp src/opnmidi_load.cpp src/opnmidi_midiplay.cpp src/opnmidi_opn2.cpp src/opnmidi_private.cpp src/opnmidi_sequencer.cpp"
SRCS_C="src/chips/mame/mame_ym2612fm.c src/chips/mamefm/emu2149.c src/chips/nuked/ym3438.c src/wopn/wopn_file.c"
# translation units that are *not* bundled third-party emulators: get -fsanitize=bounds etc.
CORE_RE='^src/(opnmidi|wopn/)'

DEFS="-DENABLE_END_SILENCE_SKIPPING -DOPNMIDI_MIDI2VGM -DNDEBUG -DOPNMIDI_VERIF"
INC="-I$REPO/include -I$REPO/src"
case $VARIANT in
  asan) SAN="-fsanitize=address -fno-omit-frame-pointer -O1 -gline-tables-only -D_GLIBCXX_SANITIZE_VECTOR"; CORESAN="-fsanitize=bounds,vla-bound,shift-exponent -fno-sanitize-recover=bounds,vla-bound,shift-exponent";;
  tsan) SAN="-fsanitize=thread -fno-omit-frame-pointer -O1 -gline-tables-only"; CORESAN="";;
  fast) SAN="-O2 -gline-tables-only"; CORESAN="";;
  dbg) SAN="-O0 -g"; CORESAN="";;
  vg) SAN="-O1 -gdwarf-4 -g"; CORESAN="";;
  *) echo "unknown variant $VARIANT" >&2; exit 2;;
esac

HASH=$( (cd "$REPO" && find src include -type f \( -name '*.c' -o -name '*.cpp' -o -name '*.h' -o -name '*.hpp' -o -name '*.tcc' -o -name '*.inc' \) -print0 | sort -z | xargs -0 sha1sum; echo "$DEFS $SAN $CORESAN"; sha1sum "$ROOT/build.sh") | sha1sum | cut -d' ' -f1)
if [ -f "$OUT/.hash" ] && [ "$(cat "$OUT/.hash")" = "$HASH" ] && [ -f "$OUT/libopn.a" ]; then
  exit 0
fi
rm -f "$OUT"/*.o "$OUT/libopn.a" "$OUT/.hash"

JOBS=$OUT/.jobs; : > "$JOBS"
for f in $SRCS_CXX; do
  o=$OUT/$(echo "$f" | tr '/' '_').o
  extra=""; if [[ $f =~ $CORE_RE ]]; then extra="$CORESAN"; fi
  std=gnu++98; case $f in src/chips/ymfm*) std=c++14;; esac
  echo "clang++ -std=$std -w $DEFS $INC $SAN $extra -c $REPO/$f -o $o" >> "$JOBS"
done
for f in $SRCS_C; do
  o=$OUT/$(echo "$f" | tr '/' '_').o
  extra=""; if [[ $f =~ $CORE_RE ]]; then extra="$CORESAN"; fi
  echo "clang -std=gnu90 -w $DEFS $INC $SAN $extra -c $REPO/$f -o $o" >> "$JOBS"
done
NPROC=${VERIF_JOBS:-16}
if ! xargs -P "$NPROC" -I{} sh -c '{}' < "$JOBS" 2> "$OUT/build.err"; then
  echo "BUILD FAILED ($VARIANT):" >&2; head -50 "$OUT/build.err" >&2; exit 2
fi
ar rcs "$OUT/libopn.a" "$OUT"/*.o
echo "$HASH" > "$OUT/.hash"
