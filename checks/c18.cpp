// C18 — settings are transactional: accepted values stick, rejected change nothing.
// Workload: sequences of every setter with in-range, boundary (0, 1, 100, 101, -1, INT_MIN/MAX) and invalid
// arguments; getters; opn2_reset, opn2_switchEmulator, opn2_setNumChips, valid and REJECTED bank and music
// loads (rejection produced by storage/libc faults on otherwise valid files as well as by malformed content),
// hook registration, device id; each run ends with a probe phrase.
// Oracle: (a) RefSettings predicts every getter after every call (requested value, bank default for auto,
// per-bank overrides reset by a bank load, persistence across reset/emulator/file loads); (b) twin instance B
// receives the same history minus the calls that reported failure: at the end getters, the register stream and
// the PCM of the probe phrase, SysEx addressed to the stored device id and the callbacks of a looped mini-song
// must be identical; (c) a rejected bank leaves bank traversal + instruments unchanged, a rejected music file is
// followed by a successful valid load, both leave a non-empty error text.
#include "../sim/snapshot.hpp"
#include "../sim/formats.hpp"
#include "../sim/seqmodel.hpp"
#include <climits>

extern "C" void opn2_set_vgm_out_path(const char *path);
using namespace sim;

enum { G_NUM_CHIPS = 0, G_EMULATOR, G_DEVICE_ID, G_LFO_EN, G_LFO_FREQ, G_CHIP_TYPE, G_VOL_MODEL, G_CHAN_ALLOC, G_ARP, G_MISC_SETTERS, G_RESET, G_LOAD_BANK, G_LOAD_SONG, G_BAD_BANK_ID, G_BAD_TRACK, G_BAD_CHANNEL, G_RT, G_HOOKS, G_RUN_PCM_RATE, G_COUNT };
static const char *gName(int k)
{
    static const char *n[] = { "setNumChips", "switchEmulator", "setDeviceIdentifier", "setLfoEnabled", "setLfoFrequency", "setChipType", "setVolumeRangeModel", "setChannelAllocMode", "setAutoArpeggio",
                               "miscSetters", "reset", "loadBank", "loadSong", "getBankBadId", "setTrackOptionsBad", "setChannelEnabledBad", "rtEvent", "setHooks", "setRunAtPcmRate" };
    return k >= 0 && k < G_COUNT ? n[k] : "?";
}

struct RefSettings
{
    int chips, emu, deviceId, lfoEn, lfoFreq, chipType, volModel, chanAlloc, arp;
    int bankLfoEn, bankLfoFreq, bankChipType;
    RefSettings() : chips(2), emu(0), deviceId(0), lfoEn(-1), lfoFreq(-1), chipType(-1), volModel(0), chanAlloc(-1), arp(0), bankLfoEn(0), bankLfoFreq(0), bankChipType(0) {}
};

struct Probe { uint64_t regs, pcm; int sysexAccepted; uint64_t loopStarts, loopEnds, rawEvents; std::vector<int> getters; };

class C18 : public Check
{
public:
    const char *id() { return "C18"; }
    const char *opName(int k) { return gName(k); }
    int quickRuns() { return 1800; }
    int quickSeconds() { return 90; }
    int thoroughSeconds() { return 900; }
    int cpuBudgetSec() { return 30; }
    const char *rule()
    {
        return "each run = seeded sequence of 10..120 setter/getter/reset/load calls (valid, boundary and invalid arguments; bank and music loads valid or rejected through storage/libc faults or malformed content) on instance A, the same minus the failing calls on twin B, then the probe (getters, SysEx to the stored device id, 8-note phrase register stream + PCM, looped mini-song callbacks); "
               "distinct = distinct (op kind, argument class, accepted/rejected, emulator, bank-loaded?) tuples";
    }
    std::vector<std::string> realComponents() { return { "every opn2_set*/get* entry point, applySetup/partialReset/resetMIDI, LoadBank/LoadMIDI incl. their failure paths, SysEx device addressing, hook wiring, the emulator cores for the probe phrase" }; }
    std::vector<std::string> stubComponents() { return { "libc stdio replaced by SimFS (fault-injecting)" }; }
    std::vector<std::string> requiredProbes() { return { "rejected.setNumChips", "rejected.switchEmulator", "rejected.setDeviceIdentifier", "rejected.bank_load", "rejected.song_load", "accepted.bank_load", "accepted.song_load", "valid_song_after_rejected", "fault.truncate", "fault.readerr", "device_id_nonzero_probe", "reset_with_settings", "per_bank_override_reset" }; }

    void generate(Rng &r, Plan &p, bool thorough)
    {
        p.cfg["rate"] = r.pick<int>({ 8000, 22050, 44100 });
        p.cfg["bankseed"] = (int64_t)r.below(1000);
        int len = (int)r.range(10, thorough ? 120 : 60);
        for(int i = 0; i < len; ++i)
        {
            Op o; o.kind = (int)r.weighted({ 8, 8, 7, 5, 5, 5, 6, 4, 3, 5, 6, 8, 8, 3, 3, 3, 8, 4, 3 });
            switch(o.kind)
            {
            case G_NUM_CHIPS: o.a[0] = r.chance(0.5) ? (int64_t)r.range(1, 6) : (int64_t)r.pick<int>({ 0, 1, 100, 101, -1, INT_MIN, INT_MAX, 8, 50 }); break;
            case G_EMULATOR: o.a[0] = r.chance(0.6) ? (int64_t)r.pick<int>({ 0, 2, 3, 4, 5, 6, 7 }) : (int64_t)r.pick<int>({ -1, 9, 10, 31, 32, 33, 64, 255, INT_MIN, INT_MAX, 1, 8 }); break;
            case G_DEVICE_ID: o.a[0] = r.chance(0.6) ? (int64_t)r.below(16) : (int64_t)r.pick<int64_t>({ 16, 17, 127, 255, 65536, 0xFFFFFFFFll }); break;
            case G_LFO_EN: o.a[0] = (int64_t)r.range(-1, 1); break;
            case G_LFO_FREQ: o.a[0] = (int64_t)r.range(-1, 7); break;
            case G_CHIP_TYPE: o.a[0] = (int64_t)r.range(-1, 1); break;
            case G_VOL_MODEL: o.a[0] = (int64_t)r.range(0, 5); break;
            case G_CHAN_ALLOC: o.a[0] = r.chance(0.7) ? (int64_t)r.range(-1, 2) : (int64_t)r.pick<int>({ -2, 3, 100, INT_MIN, INT_MAX }); break;
            case G_ARP: o.a[0] = (int64_t)r.pick<int>({ 0, 1, 2, -1 }); break;
            case G_MISC_SETTERS: o.a[0] = (int64_t)r.below(6); o.a[1] = (int64_t)r.pick<int>({ 0, 1, 1, -1, 2 }); o.d = r.pick<double>({ 0.5, 1.0, 2.0 }); break;
            case G_LOAD_BANK: case G_LOAD_SONG:
                o.a[0] = (int64_t)r.below(1u << 30);                 // content seed
                o.a[1] = (int64_t)r.weighted({ 50, 30, 20 });         // 0 valid, 1 valid + fault (likely rejected), 2 malformed
                o.a[2] = r.chance(0.5);                               // via file
                if(o.a[1] == 1)
                {
                    if(o.a[2] && r.chance(0.5)) o.faults.push_back(Fault(r.pick<int>({ FS_NOENT, FS_READERR, FS_SHORTREAD, FS_TELLFAIL, FS_SEEKFAIL }), (int64_t)r.below(40)));
                    else o.faults.push_back(Fault(FS_TRUNCATE, (int64_t)r.below(r.chance(0.5) ? 30 : 4000)));
                }
                break;
            case G_BAD_BANK_ID: o.a[0] = (int64_t)r.pick<int>({ 2, 255 }); o.a[1] = (int64_t)r.pick<int>({ 0, 128, 255 }); o.a[2] = (int64_t)r.pick<int>({ 0, 128, 200 }); o.a[3] = (int64_t)r.pick<int>({ 0, 1, 3 }); break;
            case G_BAD_TRACK: o.a[0] = (int64_t)r.pick<int64_t>({ 50, 1000, -1 }); o.a[1] = (int64_t)r.pick<int>({ 1, 2 }); break;
            case G_BAD_CHANNEL: o.a[0] = (int64_t)r.pick<int64_t>({ 16, 17, 1000, -1 }); o.a[1] = (int64_t)r.below(2); break;
            case G_RT: o.a[0] = (int64_t)r.below(4); o.a[1] = (int64_t)r.below(16); o.a[2] = (int64_t)r.range(30, 90); o.a[3] = (int64_t)r.below(128); break;
            case G_HOOKS: o.a[0] = (int64_t)r.below(32); break;
            case G_RUN_PCM_RATE: o.a[0] = (int64_t)r.below(2); break;
            default: break;
            }
            p.ops.push_back(o);
        }
    }

    struct Side { OPN2_MIDIPlayer *dev; RawRecorder rec; bool hooksSet; Side() : dev(NULL), hooksSet(false) {} };

    static uint64_t bankDigest(OPN2_MIDIPlayer *dev)
    {
        Hasher h; OPN2_Bank b; int n = 0;
        if(opn2_getFirstBank(dev, &b) == 0) do { OPN2_BankId id; opn2_getBankId(dev, &b, &id); h.add(id.percussive); h.add(id.msb); h.add(id.lsb); for(unsigned q = 0; q < 128; ++q) { OPN2_Instrument in; opn2_getInstrument(dev, &b, q, &in); h.addBytes(&in.note_offset, sizeof in - offsetof(OPN2_Instrument, note_offset)); } if(++n > 5000) break; } while(opn2_getNextBank(dev, &b) == 0);
        return h.h;
    }

    static std::vector<int> getters(OPN2_MIDIPlayer *d)
    {
        return { opn2_getNumChips(d), opn2_getNumChipsObtained(d), opn2_getLfoEnabled(d), opn2_getLfoFrequency(d), opn2_getChipType(d), opn2_getVolumeRangeModel(d), opn2_getChannelAllocMode(d), opn2_getAutoArpeggio(d), (int)hashStr(opn2_chipEmulatorName(d)) };
    }

    Probe probe(Side &s, int deviceId, long rate, Run &run)
    {
        Probe pr; OPN2_MIDIPlayer *d = s.dev;
        pr.getters = getters(d);
        // SysEx addressed to the stored device id (master volume 100)
        uint8_t mv[8] = { 0xF0, 0x7F, (uint8_t)deviceId, 0x04, 0x01, 0x00, 100, 0xF7 };
        pr.sysexAccepted = opn2_rt_systemExclusive(d, mv, 8);
        uint8_t mv2[8] = { 0xF0, 0x7F, 0x7F, 0x04, 0x01, 0x00, 127, 0xF7 }; opn2_rt_systemExclusive(d, mv2, 8);
        // 8-note phrase: register stream + PCM
        opn2_panic(d); opn2_rt_resetState(d);
        g_tap.recs.clear();
        Hasher pcm; std::vector<short> buf(512);
        for(int n = 0; n < 8; ++n)
        {
            opn2_rt_patchChange(d, 0, (OPN2_UInt8)(n * 3)); opn2_rt_noteOn(d, (OPN2_UInt8)(n == 5 ? 9 : 0), (OPN2_UInt8)(48 + n * 2), 100);
            opn2_generate(d, 512, buf.data()); pcm.addBytes(buf.data(), 1024);
            opn2_rt_noteOff(d, (OPN2_UInt8)(n == 5 ? 9 : 0), (OPN2_UInt8)(48 + n * 2));
        }
        run.simSeconds += 8.0 * 256.0 / (double)rate;
        Hasher rh; const void *synth = Acc::P(d)->m_synth.get();
        for(size_t k = 0; k < g_tap.recs.size(); ++k) if(g_tap.recs[k].synth == synth) { rh.add(g_tap.recs[k].chip); rh.add(g_tap.recs[k].port); rh.add(g_tap.recs[k].reg); rh.add(g_tap.recs[k].val); rh.add(g_tap.recs[k].isPan); }
        g_tap.recs.clear();
        pr.regs = rh.h; pr.pcm = pcm.h;
        // looped mini-song: callbacks still wired?
        s.rec.ev.clear(); s.rec.loopStarts = s.rec.loopEnds = 0;
        Song song; song.format = 0; song.division = 96; song.tracks.resize(1);
        { SEvent m; m.status = 0xFF; m.metaType = 0x06; const char *ls = "loopStart"; m.data.assign(ls, ls + 9); m.tick = 0; song.tracks[0].ev.push_back(m);
          SEvent e; e.tick = 0; e.status = 0x90; e.ch = 1; e.d1 = 60; e.d2 = 90; song.tracks[0].ev.push_back(e); e.tick = 48; e.status = 0x80; song.tracks[0].ev.push_back(e);
          SEvent m2 = m; const char *le = "loopEnd"; m2.data.assign(le, le + 7); m2.tick = 96; song.tracks[0].ev.push_back(m2); song.tracks[0].eotTick = 96; }
        std::vector<uint8_t> smf = writeSmf(song, false);
        opn2_setLoopEnabled(d, 1); opn2_setLoopCount(d, 2);
        if(opn2_openData(d, smf.data(), (unsigned long)smf.size()) == 0) { opn2_setTempo(d, 1.0); for(int k = 0; k < 400 && !opn2_atEnd(d); ++k) opn2_tickEvents(d, 0.02, 1e-4); }
        pr.loopStarts = s.rec.loopStarts; pr.loopEnds = s.rec.loopEnds; pr.rawEvents = s.rec.ev.size();
        return pr;
    }

    void execute(const Plan &p, Run &run)
    {
        SimFsScope fs; g_fs.reset();
        opn2_set_vgm_out_path("kek.vgm");
        tapInstall(true);
        const long rate = (long)p.get("rate", 22050);
        Side A, B; A.dev = opn2_init(rate); B.dev = opn2_init(rate);
        RefSettings m;
        std::vector<uint8_t> goodSong = stockSong(5, 0);
        bool bankLoadedA = false;
        auto apply = [&](Side &s, const Op &o, std::vector<uint8_t> *img, bool &reportedFailure, bool &isVoid) -> int
        {
            OPN2_MIDIPlayer *d = s.dev; reportedFailure = false; isVoid = false; int rc = 0;
            switch(o.kind)
            {
            case G_NUM_CHIPS: rc = opn2_setNumChips(d, (int)o.a[0]); reportedFailure = rc < 0; break;
            case G_EMULATOR: rc = opn2_switchEmulator(d, (int)o.a[0]); reportedFailure = rc < 0; break;
            case G_DEVICE_ID: rc = opn2_setDeviceIdentifier(d, (unsigned)o.a[0]); reportedFailure = rc < 0; break;
            case G_LFO_EN: opn2_setLfoEnabled(d, (int)o.a[0]); isVoid = true; break;
            case G_LFO_FREQ: opn2_setLfoFrequency(d, (int)o.a[0]); isVoid = true; break;
            case G_CHIP_TYPE: opn2_setChipType(d, (int)o.a[0]); isVoid = true; break;
            case G_VOL_MODEL: opn2_setVolumeRangeModel(d, (int)o.a[0]); isVoid = true; break;
            case G_CHAN_ALLOC: opn2_setChannelAllocMode(d, (int)o.a[0]); isVoid = true; break;
            case G_ARP: opn2_setAutoArpeggio(d, (int)o.a[0]); isVoid = true; break;
            case G_MISC_SETTERS:
                isVoid = true;
                switch((int)o.a[0]) { case 0: opn2_setScaleModulators(d, (int)o.a[1]); break; case 1: opn2_setFullRangeBrightness(d, (int)o.a[1]); break; case 2: opn2_setSoftPanEnabled(d, (int)o.a[1]); break; case 3: opn2_setLoopEnabled(d, (int)o.a[1]); break; case 4: opn2_setLoopCount(d, (int)o.a[1]); break; default: opn2_setTempo(d, o.d); break; }
                break;
            case G_RUN_PCM_RATE: rc = opn2_setRunAtPcmRate(d, (int)o.a[0]); reportedFailure = rc < 0; break;
            case G_RESET: opn2_reset(d); isVoid = true; break;
            case G_LOAD_BANK: case G_LOAD_SONG:
            {
                std::vector<uint8_t> data = *img; applyStorageFaults(data, o.faults, &s == &A ? &g_fs.fired : NULL);
                const char *name = o.kind == G_LOAD_BANK ? "b.wopn" : "s.mid";
                if(o.a[2])
                {
                    g_fs.files[name] = data; for(size_t f = 0; f < o.faults.size(); ++f) if(o.faults[f].kind < FS_TRUNCATE) g_fs.nextOpenFaults.push_back(o.faults[f]);
                    rc = o.kind == G_LOAD_BANK ? opn2_openBankFile(d, name) : opn2_openFile(d, name); g_fs.nextOpenFaults.clear();
                }
                else { ExactBuf eb(data.size()); if(!data.empty()) memcpy(eb.p, data.data(), data.size()); rc = o.kind == G_LOAD_BANK ? opn2_openBankData(d, eb.p, (long)data.size()) : opn2_openData(d, eb.p, (unsigned long)data.size()); }
                reportedFailure = rc != 0; break;
            }
            case G_BAD_BANK_ID: { OPN2_BankId id; id.percussive = (OPN2_UInt8)o.a[0]; id.msb = (OPN2_UInt8)o.a[1]; id.lsb = (OPN2_UInt8)o.a[2]; OPN2_Bank b; rc = opn2_getBank(d, &id, (int)o.a[3], &b); reportedFailure = rc < 0; break; }
            case G_BAD_TRACK: rc = opn2_setTrackOptions(d, (size_t)o.a[0], (unsigned)o.a[1]); reportedFailure = rc < 0; break;
            case G_BAD_CHANNEL: rc = opn2_setChannelEnabled(d, (size_t)o.a[0], (int)o.a[1]); reportedFailure = rc < 0; break;
            case G_RT:
                isVoid = true;
                switch((int)o.a[0]) { case 0: opn2_rt_noteOn(d, (OPN2_UInt8)o.a[1], (OPN2_UInt8)o.a[2], 100); break; case 1: opn2_rt_noteOff(d, (OPN2_UInt8)o.a[1], (OPN2_UInt8)o.a[2]); break; case 2: opn2_rt_controllerChange(d, (OPN2_UInt8)o.a[1], 7, (OPN2_UInt8)o.a[3]); break; default: { std::vector<short> b(256); opn2_generate(d, 256, b.data()); break; } }
                break;
            case G_HOOKS:
                isVoid = true; s.hooksSet = true;
                opn2_setRawEventHook(d, RawRecorder::cb, &s.rec); opn2_setLoopStartHook(d, RawRecorder::cbLoopStart, &s.rec); opn2_setLoopEndHook(d, RawRecorder::cbLoopEnd, &s.rec);
                break;
            }
            return rc;
        };

        for(size_t i = 0; i < p.ops.size() && !run.failed(); ++i)
        {
            const Op &o = p.ops[i];
            noteOp((int)i, o.kind);
            std::vector<uint8_t> img;
            if(o.kind == G_LOAD_BANK)
            {
                if(o.a[1] == 2) { Rng r(mix64((uint64_t)o.a[0], 2)); size_t n = (size_t)r.below(60); const char *mg = "WOPN2-B2NK"; if(r.chance(0.6)) img.insert(img.end(), mg, mg + 10); for(size_t k = 0; k < n; ++k) img.push_back((uint8_t)r.below(256)); }
                else { Rng r(mix64((uint64_t)o.a[0], 0xBA4C)); BankGenOpts bo; bo.nMel = (int)r.range(1, 2); bo.nPerc = 1; GenWopn gw = genWopn(r, bo); gw.lfoFreq = (uint8_t)(o.a[0] & 15); gw.chipType = (uint8_t)((o.a[0] >> 4) & 1); img = writeWopn(gw); }
            }
            else if(o.kind == G_LOAD_SONG)
            {
                Rng r(mix64((uint64_t)o.a[0], 0x50));
                // malformed content: skeletons of every front-end but EA-MUS (RSXX), which is a mode of its own that
                // deliberately forces 2 chips / generic volumes and locks the setup. CMF/IMF parse and are then refused (no OPL synth here).
                if(o.a[1] == 2) { if(r.chance(0.25)) { img = wellFormedCmf(r); run.count("wellformed_cmf_refused_after_parsing"); } else { int det = 9; for(int t = 0; t < 20 && det == 7; ++t) img = fuzzMusicFile(r, det); } } else { int kind; img = validMusicFile(r, kind); }
            }
            uint64_t digestBefore = (o.kind == G_LOAD_BANK) ? bankDigest(A.dev) : 0;
            std::vector<int> gettersBefore = getters(A.dev);
            bool failed = false, isVoid = false;
            int rc = apply(A, o, &img, failed, isVoid);
            // ---- model update + documented failure
            int argClass = o.a[0] < 0 ? 0 : (o.a[0] == 0 ? 1 : (o.a[0] <= 100 ? 2 : 3));
            Hasher st; st.add((uint64_t)o.kind); st.add((uint64_t)argClass); st.add(failed); st.add((uint64_t)m.emu); st.add(bankLoadedA); run.state(st.h);
            switch(o.kind)
            {
            case G_NUM_CHIPS: { bool bad = o.a[0] < 1 || o.a[0] > 100; if(bad != failed) run.fail("documented-failure-mismatch", gName(o.kind), "opn2_setNumChips(" + std::to_string(o.a[0]) + ") returned " + std::to_string(rc)); if(!failed) m.chips = (int)o.a[0]; break; }
            case G_EMULATOR: { bool bad = o.a[0] < 0 || o.a[0] > 8; if(bad != failed) run.fail("documented-failure-mismatch", gName(o.kind), "opn2_switchEmulator(" + std::to_string(o.a[0]) + ") returned " + std::to_string(rc)); if(!failed) m.emu = (int)o.a[0]; break; }
            case G_DEVICE_ID: { bool bad = (uint64_t)(unsigned)o.a[0] > 15; if(bad != failed) run.fail("documented-failure-mismatch", gName(o.kind), "opn2_setDeviceIdentifier(" + std::to_string((unsigned)o.a[0]) + ") returned " + std::to_string(rc)); if(!failed) m.deviceId = (int)o.a[0]; break; }
            case G_LFO_EN: m.lfoEn = (int)o.a[0]; break;
            case G_LFO_FREQ: m.lfoFreq = (int)o.a[0]; break;
            case G_CHIP_TYPE: m.chipType = (int)o.a[0]; break;
            case G_VOL_MODEL: m.volModel = (int)o.a[0]; break;
            case G_CHAN_ALLOC: m.chanAlloc = (o.a[0] < -1 || o.a[0] > 2) ? -1 : (int)o.a[0]; break;
            case G_ARP: m.arp = o.a[0] != 0; break;
            case G_BAD_BANK_ID: if(!failed) run.fail("documented-failure-mismatch", gName(o.kind), "opn2_getBank with out-of-range id fields returned " + std::to_string(rc)); break;
            case G_BAD_TRACK: if(!failed) run.fail("documented-failure-mismatch", gName(o.kind), "opn2_setTrackOptions(track " + std::to_string(o.a[0]) + ") returned " + std::to_string(rc)); break;
            case G_BAD_CHANNEL: if(!failed) run.fail("documented-failure-mismatch", gName(o.kind), "opn2_setChannelEnabled(channel " + std::to_string(o.a[0]) + ") returned " + std::to_string(rc)); break;
            case G_LOAD_BANK:
                if(!failed) { bankLoadedA = true; m.bankLfoEn = (img[15 + 0] , 0); /* placeholder, set below */ }
                break;
            default: break;
            }
            if(run.failed()) break;
            if(failed) run.count((std::string("rejected.") + (o.kind == G_LOAD_BANK ? "bank_load" : o.kind == G_LOAD_SONG ? "song_load" : gName(o.kind))).c_str());
            if(o.kind == G_LOAD_BANK && !failed)
            {
                run.count("accepted.bank_load");
                // the image that was accepted (after storage faults) defines the bank defaults
                std::vector<uint8_t> data = img; applyStorageFaults(data, o.faults, NULL);
                uint8_t flags = data.size() > 17 ? data[17] : 0; // magic(11) + version(2) + counts(4) + flags
                m.bankLfoEn = (flags & 8) ? 1 : 0; m.bankLfoFreq = flags & 7; m.bankChipType = (flags >> 4) & 1;
                if(m.lfoEn >= 0 || m.lfoFreq >= 0 || m.chipType >= 0 || m.volModel != 0) run.count("per_bank_override_reset");
                m.lfoEn = -1; m.lfoFreq = -1; m.chipType = -1; m.volModel = 0;
            }
            if(o.kind == G_LOAD_SONG && !failed) run.count("accepted.song_load");
            if(o.kind == G_RESET && (m.deviceId || m.chips != 2 || m.volModel)) run.count("reset_with_settings");
            // ---- rejected loads
            if((o.kind == G_LOAD_BANK || o.kind == G_LOAD_SONG) && failed)
            {
                const char *err = opn2_errorInfo(A.dev);
                if(!err || !*err) { run.fail("rejected-without-error-text", gName(o.kind), "load returned " + std::to_string(rc) + " with empty opn2_errorInfo"); break; }
                if(o.kind == G_LOAD_BANK && bankDigest(A.dev) != digestBefore) { run.fail("rejected-bank-changed-bank", gName(o.kind), "a rejected bank file changed the bank traversal / instruments"); break; }
                if(o.kind == G_LOAD_SONG && bankLoadedA)
                {
                    if(opn2_openData(A.dev, goodSong.data(), (unsigned long)goodSong.size()) != 0) { run.fail("valid-file-rejected-after-failed-load", gName(o.kind), opn2_errorInfo(A.dev)); break; }
                    opn2_openData(B.dev, goodSong.data(), (unsigned long)goodSong.size());
                    run.count("valid_song_after_rejected");
                }
            }
            // a call that reported failure must leave every getter as it was
            if(failed && getters(A.dev) != gettersBefore) { run.fail("rejected-call-changed-getters", gName(o.kind), std::string(gName(o.kind)) + " reported failure (" + std::to_string(rc) + ") but a getter changed"); break; }
            // ---- getters vs model after every call
            {
                std::vector<int> g = getters(A.dev);
                int wantObtained = (m.emu == OPNMIDI_VGM_DUMPER && m.chips > 2) ? 2 : m.chips;
                int wantLfoEn = m.lfoEn < 0 ? m.bankLfoEn : (m.lfoEn != 0), wantLfoFreq = m.lfoFreq < 0 ? m.bankLfoFreq : m.lfoFreq, wantChip = m.chipType < 0 ? m.bankChipType : m.chipType;
                int wantVol = m.volModel == 0 ? OPNMIDI_VolumeModel_Generic : m.volModel;
                const char *names[8] = { "getNumChips", "getNumChipsObtained", "getLfoEnabled", "getLfoFrequency", "getChipType", "getVolumeRangeModel", "getChannelAllocMode", "getAutoArpeggio" };
                int want[8] = { m.chips, wantObtained, wantLfoEn, wantLfoFreq, wantChip, wantVol, m.chanAlloc, m.arp };
                for(int k = 0; k < 8 && !run.failed(); ++k) if(g[(size_t)k] != want[k])
                    run.fail("getter-disagrees-with-accepted-settings", std::string(names[k]) + ".after." + gName(o.kind), std::string(names[k]) + " returns " + std::to_string(g[(size_t)k]) + " but the accepted settings imply " + std::to_string(want[k]) + " (after " + gName(o.kind) + "(" + std::to_string(o.a[0]) + "))");
            }
            if(run.failed()) break;
            // ---- twin: the same call unless it reported failure
            if(!failed) { bool f2, v2; apply(B, o, &img, f2, v2); if(f2) { run.fail("twin-diverged", gName(o.kind), "the call succeeded on A but failed on the twin"); break; } }
            run.log.add((uint64_t)rc); run.log.add(failed);
        }
        // ---- probe
        if(!run.failed())
        {
            noteOp((int)p.ops.size(), G_RT);
            if(!A.hooksSet) { Op h(G_HOOKS); bool f, v; apply(A, h, NULL, f, v); apply(B, h, NULL, f, v); }
            if(m.deviceId) run.count("device_id_nonzero_probe");
            Probe pa = probe(A, m.deviceId, rate, run), pb = probe(B, m.deviceId, rate, run);
            if(pa.getters != pb.getters) run.fail("failed-call-left-a-trace", "getters", "getters of A (with the failing calls) and of the twin (without them) differ");
            else if(pa.sysexAccepted != 1) run.fail("device-id-not-persistent", "sysex", "a master-volume SysEx addressed to the stored device id " + std::to_string(m.deviceId) + " was rejected at the end of the history");
            else if(pa.sysexAccepted != pb.sysexAccepted) run.fail("failed-call-left-a-trace", "sysex", "SysEx acceptance differs between A and the twin");
            else if(pa.regs != pb.regs) run.fail("failed-call-left-a-trace", "register-stream", "the probe phrase programs the chips differently on A (with the failing calls) than on the twin (without them)");
            else if(pa.pcm != pb.pcm) run.fail("failed-call-left-a-trace", "pcm", "the probe phrase sounds different on A than on the twin");
            else if(pa.loopStarts != pb.loopStarts || pa.loopEnds != pb.loopEnds || pa.rawEvents != pb.rawEvents) run.fail("failed-call-left-a-trace", "callbacks", "callback counts differ between A and the twin");
            // (the VGM dumper core takes the loop points for itself: user loop callbacks are not expected to fire there)
            else if(bankLoadedA && m.emu != OPNMIDI_VGM_DUMPER && (pa.loopEnds == 0 || pa.rawEvents == 0)) run.fail("callbacks-not-persistent", "callbacks", "registered callbacks did not fire for the looped probe song (loop ends " + std::to_string(pa.loopEnds) + ", raw events " + std::to_string(pa.rawEvents) + ")");
            run.log.add(pa.regs); run.log.add(pa.pcm);
        }
        for(std::map<std::string, uint64_t>::iterator it = g_fs.fired.begin(); it != g_fs.fired.end(); ++it) run.counters["fault." + it->first] += it->second;
        opn2_close(A.dev); opn2_close(B.dev);
        tapInstall(false);
    }
};

int main(int argc, char **argv)
{
    C18 c;
    return driverMain(c, argc, argv);
}
