// C13 — audio calls fill exactly what they report, in the requested sample format.
// Workload: histories mixing real-time events (or a loaded song) with opn2_generate / generateFormat / play /
// playFormat requests of -4..70000 samples; N-plet instances receive the SAME history (same events, same
// request sizes, chosen by the scheduler) with different formats: all 10 sample types x container 1/2/4/8 x
// sample offsets (packed, interleaved, padded, planar); all audio cores, 1..4 chips, loud (clipping) and quiet
// material.
// Oracle: return value; caller buffers live in a poisoned arena: exactly the reported samples at
// left/right + i*sampleOffset change; the F64 instance gives the unsaturated mix r exactly; every other supported
// pair must equal RefFormat(r); unsupported pairs return 0 and write nothing.
#include "../sim/apiops.hpp"
#include "../sim/songgen.hpp"

extern "C" void opn2_set_vgm_out_path(const char *path);
using namespace sim;

enum { R_NOTE_ON = 0, R_NOTE_OFF, R_CC, R_GENERATE, R_PLAY, R_COUNT };
static const char *rName(int k) { static const char *n[] = { "noteOn", "noteOff", "cc", "generate", "play" }; return k >= 0 && k < R_COUNT ? n[k] : "?"; }

struct Fmt { int type; unsigned container; unsigned offset; bool planar; bool defaultApi; };

static bool supported(int t, unsigned c)
{
    switch(t)
    {
    case OPNMIDI_SampleType_S8: case OPNMIDI_SampleType_U8: return c == 1 || c == 2 || c == 4;
    case OPNMIDI_SampleType_S16: case OPNMIDI_SampleType_U16: return c == 2 || c == 4;
    case OPNMIDI_SampleType_S24: case OPNMIDI_SampleType_U24: case OPNMIDI_SampleType_S32: case OPNMIDI_SampleType_U32: case OPNMIDI_SampleType_F32: return c == 4;
    case OPNMIDI_SampleType_F64: return c == 8;
    default: return false;
    }
}
static int64_t sat16(int64_t r) { return r < -32768 ? -32768 : (r > 32767 ? 32767 : r); }

class C13 : public Check
{
public:
    const char *id() { return "C13"; }
    const char *opName(int k) { return rName(k); }
    int quickRuns() { return 1800; }
    int quickSeconds() { return 90; }
    int thoroughSeconds() { return 900; }
    int cpuBudgetSec() { return 30; }
    const char *rule()
    {
        return "each run = one emulator/chips/rate/loudness configuration, 3-4 instances with different (type, container, offset, layout) formats incl. the F64 reference, and one seeded history of events and audio requests (sizes -4..70000, odd and even, around the 512-frame period) applied to all of them; "
               "distinct = distinct (sample type, container, offset class, planar?, request-size class, emulator) tuples checked";
    }
    std::vector<std::string> realComponents() { return { "opn2_generate/generateFormat/play/playFormat, SendStereoAudio and the opn2_cvt* converters, the per-chip resamplers and all 8 audio cores (Nuked at reduced weight)" }; }
    std::vector<std::string> stubComponents() { return { "none" }; }
    std::vector<std::string> requiredProbes() { return { "clipping_in_reference", "request_odd", "request_negative", "request_gt_512_frames", "request_70000", "unsupported_pair_refused", "planar", "padded_offset", "play_at_end_short", "type.0", "type.1", "type.2", "type.4", "type.5", "type.6", "type.7", "type.8", "type.9" }; }
    std::vector<std::string> assumptions() { return { "S8/U8 are compared within +-1 LSB (the property says 'scaled', not how it rounds); F32 within 1 ulp; all other integer types exactly" }; }

    void generate(Rng &r, Plan &p, bool thorough)
    {
        int emu = (int)r.weighted({ 14, 2, 20, 8, 12, 10, 8, 0, 2 });
        p.cfg["emu"] = emu;
        p.cfg["chips"] = (int64_t)r.range(1, 4);
        p.cfg["rate"] = r.pick<int>({ 8000, 22050, 44100, 48000, 53267, 96000 });
        p.cfg["loud"] = r.chance(0.5);
        p.cfg["song"] = r.chance(0.3);
        p.cfg["fmtseed"] = (int64_t)r.below(1u << 30);
        bool slow = (emu == 1 || emu == 8);
        int len = (int)r.range(6, thorough ? 60 : 30);
        double budgetFrames = slow ? 3000 : (emu == 3 || emu == 6 || emu == 5 ? 40000 : 90000);
        double spent = 0;
        if(p.cfg["loud"])
        {
            // drive the mix into clipping: every chip channel busy at full level
            if(!slow) p.cfg["chips"] = (int64_t)r.range(3, 4);
            for(int c = 0; c < 16; ++c) p.ops.push_back(Op(R_CC, c, 7, 127));
            int nn = (int)p.cfg["chips"] * 6; for(int k = 0; k < nn; ++k) p.ops.push_back(Op(R_NOTE_ON, (k % 16 == 9) ? 8 : k % 16, 40 + (k * 2) % 60, 127));
        }
        if(p.cfg["song"]) p.cfg["rate"] = 8000;
        for(int i = 0; i < len; ++i)
        {
            Op o; o.kind = (int)r.weighted({ 30, 10, 8, 30, p.cfg["song"] ? 40 : 0 });
            switch(o.kind)
            {
            case R_NOTE_ON: o.a[0] = r.chance(0.2) ? 9 : (int64_t)r.below(16); o.a[1] = (int64_t)r.range(30, 90); o.a[2] = (int64_t)r.range(60, 127); break;
            case R_NOTE_OFF: o.a[0] = (int64_t)r.below(16); o.a[1] = (int64_t)r.range(30, 90); break;
            case R_CC: o.a[0] = (int64_t)r.below(16); o.a[1] = r.pick<int>({ 7, 10, 11 }); o.a[2] = (int64_t)r.below(128); break;
            default:
            {
                int64_t n = r.chance(0.08) ? (int64_t)r.range(-4, 1) : (r.chance(0.75) ? (int64_t)r.pick<int>({ 2, 3, 4, 100, 511 * 2, 512 * 2, 512 * 2 + 1, 513 * 2, 1023 * 2, 1024 * 2, 1025 * 2, 2048, 3000 }) : (r.chance(0.8) ? (int64_t)r.below(6000) : 70000));
                double remain = budgetFrames - spent; if(n / 2 > remain) n = (int64_t)std::max(2.0, remain) * 2;
                if(n > 0) spent += (double)(n / 2);
                o.a[0] = n; break;
            }
            }
            p.ops.push_back(o);
        }
    }

    void execute(const Plan &p, Run &run)
    {
        SimFsScope fs; g_fs.reset();
        opn2_set_vgm_out_path("kek.vgm");
        const long rate = (long)p.get("rate", 44100); const int emu = (int)p.get("emu", 2); const int chips = (int)p.get("chips", 2);
        // bank: loud = algorithm 7, all carriers at full level, instant attack
        Rng br(mix64(7, 0xBA4C)); BankGenOpts bo; GenWopn gw = genWopn(br, bo);
        if(p.get("loud", 0)) for(int s = 0; s < 2; ++s) { std::vector<GenBank> &bs = s ? gw.perc : gw.mel; for(size_t j = 0; j < bs.size(); ++j) for(int k = 0; k < 128; ++k) { GenIns &in = bs[j].ins[k]; in.fbalg = 0x07; in.lfosens = 0; in.noteOffset = 0; for(int l = 0; l < 4; ++l) { uint8_t v[7] = { (uint8_t)(1 + l), 0x00, 0x1F, 0x00, 0x00, 0x0F, 0x00 }; memcpy(in.ops[l], v, 7); } in.blank = false; in.delayOn = 40000; in.delayOff = 100; } }
        std::vector<uint8_t> bank = writeWopn(gw);
        std::vector<uint8_t> song = stockSong(3, 0);
        // formats: instance 0 = F64 reference (interleaved, packed)
        Rng fr(mix64((uint64_t)p.get("fmtseed"), 0xF0));
        std::vector<Fmt> fmts; { Fmt f; f.type = OPNMIDI_SampleType_F64; f.container = 8; f.offset = 16; f.planar = false; f.defaultApi = false; fmts.push_back(f); }
        int extra = (int)fr.range(2, 3);
        for(int k = 0; k < extra; ++k)
        {
            Fmt f; f.defaultApi = fr.chance(0.12);
            if(f.defaultApi) { f.type = OPNMIDI_SampleType_S16; f.container = 2; f.offset = 4; f.planar = false; }
            else
            {
                f.type = fr.chance(0.92) ? (int)fr.below(10) : fr.pick<int>({ -1, 10, 99 });
                f.container = fr.chance(0.75) ? (unsigned)(f.type == 3 ? 8 : (f.type == 1 || f.type == 6) ? fr.pick<int>({ 1, 2, 4 }) : (f.type == 0 || f.type == 7) ? fr.pick<int>({ 2, 4 }) : 4) : (unsigned)fr.pick<int>({ 1, 2, 4, 8, 3, 0 });
                f.planar = fr.chance(0.4);
                unsigned w = f.container ? f.container : 1;
                f.offset = f.planar ? (fr.chance(0.6) ? w : w + (unsigned)fr.range(1, 9)) : (fr.chance(0.6) ? 2 * w : 2 * w + (unsigned)fr.range(1, 11));
            }
            fmts.push_back(f);
        }
        std::vector<OPN2_MIDIPlayer *> dev(fmts.size());
        for(size_t k = 0; k < dev.size(); ++k)
        {
            dev[k] = opn2_init(rate);
            opn2_openBankData(dev[k], bank.data(), (long)bank.size());
            opn2_switchEmulator(dev[k], emu); opn2_setNumChips(dev[k], chips);
            if(p.get("song", 0)) { opn2_openData(dev[k], song.data(), (unsigned long)song.size()); opn2_setLoopEnabled(dev[k], 0); opn2_setTempo(dev[k], 8.0 - 0.37 * (double)((uint64_t)p.get("fmtseed") % 7)); } // (about x8: the end of the song is reached within the run; the multiplier varies so that the last period before the end has another length in every run)
        }
        const bool haveSong = p.get("song", 0) != 0;
        for(size_t i = 0; i < p.ops.size() && !run.failed(); ++i)
        {
            const Op &o = p.ops[i];
            noteOp((int)i, o.kind);
            if(o.kind == R_NOTE_ON) { for(size_t k = 0; k < dev.size(); ++k) opn2_rt_noteOn(dev[k], (OPN2_UInt8)o.a[0], (OPN2_UInt8)o.a[1], (OPN2_UInt8)o.a[2]); continue; }
            if(o.kind == R_NOTE_OFF) { for(size_t k = 0; k < dev.size(); ++k) opn2_rt_noteOff(dev[k], (OPN2_UInt8)o.a[0], (OPN2_UInt8)o.a[1]); continue; }
            if(o.kind == R_CC) { for(size_t k = 0; k < dev.size(); ++k) opn2_rt_controllerChange(dev[k], (OPN2_UInt8)o.a[0], (OPN2_UInt8)o.a[1], (OPN2_UInt8)o.a[2]); continue; }
            const bool isPlay = (o.kind == R_PLAY) && haveSong;
            const int n = (int)o.a[0];
            const int wantRet = n - n % 2 < 0 ? 0 : n - n % 2;
            const size_t frames = (size_t)wantRet / 2;
            if(n & 1) run.count("request_odd"); if(n < 0) run.count("request_negative"); if(frames > 512) run.count("request_gt_512_frames"); if(n == 70000) run.count("request_70000");
            // ---- reference
            std::vector<double> ref(frames * 2 + 2, 0.0);
            OPNMIDI_AudioFormat rf; rf.type = OPNMIDI_SampleType_F64; rf.containerSize = 8; rf.sampleOffset = 16;
            bool endBefore = opn2_atEnd(dev[0]) != 0;
            int ret0 = isPlay ? opn2_playFormat(dev[0], n, (OPN2_UInt8 *)ref.data(), (OPN2_UInt8 *)(ref.data() + 1), &rf) : opn2_generateFormat(dev[0], n, (OPN2_UInt8 *)ref.data(), (OPN2_UInt8 *)(ref.data() + 1), &rf);
            if(!isPlay && ret0 != wantRet) { run.fail("generate-return-value", "reference", "opn2_generateFormat(" + std::to_string(n) + ") returned " + std::to_string(ret0) + ", expected " + std::to_string(wantRet)); break; }
            if(isPlay)
            {
                if(ret0 < 0 || ret0 > wantRet || (ret0 & 1)) { run.fail("play-return-value", "reference", "opn2_playFormat(" + std::to_string(n) + ") returned " + std::to_string(ret0)); break; }
                if(ret0 < wantRet && !opn2_atEnd(dev[0])) { run.fail("play-short-before-end", "reference", "opn2_playFormat(" + std::to_string(n) + ") returned only " + std::to_string(ret0) + " but the song has not ended"); break; }
                if(ret0 < wantRet) run.count("play_at_end_short");
                (void)endBefore;
            }
            const size_t gotFrames = (size_t)ret0 / 2;
            std::vector<int64_t> r(gotFrames * 2);
            bool clip = false;
            for(size_t s = 0; s < gotFrames * 2; ++s) { double x = ref[s] * 32767.0; r[s] = (int64_t)std::llround(x); if(std::fabs(x - (double)r[s]) > 1e-6) { run.fail("reference-not-integral", "F64", "F64 sample " + std::to_string(ref[s]) + " is not k/32767"); break; } if(r[s] > 32767 || r[s] < -32768) clip = true; }
            if(run.failed()) break;
            if(clip) run.count("clipping_in_reference");
            run.simSeconds += (double)gotFrames / (double)rate * (double)dev.size();
            run.log.addBytes(ref.data(), gotFrames * 16);
            // ---- the other formats
            for(size_t k = 1; k < dev.size() && !run.failed(); ++k)
            {
                const Fmt &f = fmts[k];
                const unsigned w = f.container;
                const bool sup = supported(f.type, w);
                // arena: [guard 64][region L][guard 64][region R][guard 64]; interleaved: R = L + w inside one region
                size_t widthWritten = sup ? w : 8;  // room for whatever an (erroneously accepting) implementation might store
                size_t span = frames ? (frames - 1) * (size_t)f.offset + widthWritten : 0;
                size_t regionL = f.planar ? span : (frames ? span + widthWritten : 0), regionR = f.planar ? span : 0;
                std::vector<uint8_t> arena(64 + regionL + 64 + regionR + 64 + 16, 0);
                const uint8_t poison = (uint8_t)(0xA5 ^ (i * 37 + k)); memset(arena.data(), poison, arena.size());
                uint8_t *L = arena.data() + 64, *R = f.planar ? arena.data() + 64 + regionL + 64 : L + (sup ? w : widthWritten);
                OPNMIDI_AudioFormat af; af.type = (OPNMIDI_SampleType)f.type; af.containerSize = w; af.sampleOffset = f.offset;
                int ret;
                if(f.defaultApi) ret = isPlay ? opn2_play(dev[k], n, (short *)L) : opn2_generate(dev[k], n, (short *)L);
                else ret = isPlay ? opn2_playFormat(dev[k], n, L, R, &af) : opn2_generateFormat(dev[k], n, L, R, &af);
                Hasher st; st.add((uint64_t)(f.type + 2)); st.add(w); st.add(f.planar); st.add((uint64_t)(f.offset > (f.planar ? w : 2 * w))); st.add((uint64_t)(frames == 0 ? 0 : frames < 512 ? 1 : frames == 512 ? 2 : frames <= 1024 ? 3 : 4)); st.add((uint64_t)emu);
                run.state(st.h);
                if(f.planar) run.count("planar"); if(f.offset > (f.planar ? w : 2 * w)) run.count("padded_offset");
                std::string fdesc = "type " + std::to_string(f.type) + " container " + std::to_string(w) + " offset " + std::to_string(f.offset) + (f.planar ? " planar" : " interleaved");
                if(!sup)
                {
                    if(ret != 0) { run.fail("unsupported-format-accepted", "type" + std::to_string(f.type) + ".c" + std::to_string(w), fdesc + " is not a supported pair but the call returned " + std::to_string(ret)); break; }
                    for(size_t b = 0; b < arena.size(); ++b) if(arena[b] != poison) { run.fail("unsupported-format-wrote", "type" + std::to_string(f.type) + ".c" + std::to_string(w), fdesc + ": refused, yet byte " + std::to_string((long)b - 64) + " of the caller's memory changed"); break; }
                    run.count("unsupported_pair_refused");
                    // keep the instance in step with the others: render the same amount in a supported format
                    std::vector<short> tmp((size_t)wantRet + 2); if(isPlay) opn2_play(dev[k], n, tmp.data()); else opn2_generate(dev[k], n, tmp.data());
                    continue;
                }
                if(ret != ret0) { run.fail("return-value-differs-between-formats", "type" + std::to_string(f.type) + ".c" + std::to_string(w), fdesc + " returned " + std::to_string(ret) + " where the F64 reference returned " + std::to_string(ret0) + " for the same history"); break; }
                run.count(("type." + std::to_string(f.type)).c_str());
                // expected bytes
                std::vector<uint8_t> expect(arena.size(), poison); std::vector<uint8_t> mask(arena.size(), 0);
                for(size_t fi = 0; fi < gotFrames; ++fi) for(int c = 0; c < 2; ++c)
                {
                    int64_t rv = r[fi * 2 + (size_t)c], s = sat16(rv); uint8_t *dst = (c ? R : L) + fi * (size_t)f.offset; size_t at = (size_t)(dst - arena.data());
                    uint8_t bytes[8]; memset(bytes, 0, 8); int tol = 0;
                    switch(f.type)
                    {
                    case OPNMIDI_SampleType_S16: case OPNMIDI_SampleType_U16: { int64_t v = s + (f.type == OPNMIDI_SampleType_U16 ? 32768 : 0); if(w == 2) { int16_t q = (int16_t)(uint16_t)v; memcpy(bytes, &q, 2); } else { int32_t q = (int32_t)v; memcpy(bytes, &q, 4); } break; }
                    case OPNMIDI_SampleType_S8: case OPNMIDI_SampleType_U8: { int64_t v = s / 256 + (f.type == OPNMIDI_SampleType_U8 ? 128 : 0); tol = 1; if(w == 1) { int8_t q = (int8_t)(uint8_t)v; memcpy(bytes, &q, 1); } else if(w == 2) { int16_t q = (int16_t)v; memcpy(bytes, &q, 2); } else { int32_t q = (int32_t)v; memcpy(bytes, &q, 4); } break; }
                    case OPNMIDI_SampleType_S24: { int32_t q = (int32_t)(s * 256); memcpy(bytes, &q, 4); break; }
                    case OPNMIDI_SampleType_U24: { int32_t q = (int32_t)(s * 256 + (1 << 23)); memcpy(bytes, &q, 4); break; }
                    case OPNMIDI_SampleType_S32: { int32_t q = (int32_t)(s * 65536); memcpy(bytes, &q, 4); break; }
                    case OPNMIDI_SampleType_U32: { uint32_t q = (uint32_t)(s * 65536 + 2147483648ll); memcpy(bytes, &q, 4); break; }
                    case OPNMIDI_SampleType_F32: { float q = (float)((double)rv / 32767.0); memcpy(bytes, &q, 4); tol = 2; break; }
                    case OPNMIDI_SampleType_F64: { double q = ref[fi * 2 + (size_t)c]; memcpy(bytes, &q, 8); break; } // same code on the same history: bit-identical
                    default: break;
                    }
                    for(unsigned b = 0; b < w; ++b) { mask[at + b] = (uint8_t)(1 + tol); expect[at + b] = bytes[b]; }
                    // compare this sample now (tolerant kinds need the value, not the bytes)
                    if(tol == 1)
                    {
                        int64_t got = 0; if(w == 1) { if(f.type == OPNMIDI_SampleType_S8) got = *(int8_t *)dst; else got = *(uint8_t *)dst; } else if(w == 2) got = *(int16_t *)dst; else got = *(int32_t *)dst;
                        int64_t want = s / 256 + (f.type == OPNMIDI_SampleType_U8 ? 128 : 0);
                        if(std::llabs(got - want) > 1) { run.fail("sample-conversion", "type" + std::to_string(f.type) + ".c" + std::to_string(w), fdesc + " frame " + std::to_string(fi) + (c ? " right" : " left") + ": mix " + std::to_string(rv) + " stored as " + std::to_string(got) + ", documented conversion gives " + std::to_string(want)); break; }
                    }
                    else if(tol == 2)
                    {
                        float got; memcpy(&got, dst, 4); float want = (float)((double)rv / 32767.0);
                        if(!(std::fabs(got - want) <= std::fabs(want) * 1.2e-7f + 1e-12f)) { run.fail("sample-conversion", "type2.c4", fdesc + " frame " + std::to_string(fi) + ": mix " + std::to_string(rv) + " stored as " + std::to_string(got) + ", expected " + std::to_string(want)); break; }
                    }
                    else if(memcmp(dst, bytes, w) != 0)
                    {
                        if(f.type == OPNMIDI_SampleType_F64) { double gd; memcpy(&gd, dst, 8); run.fail("sample-conversion", "type3.c8", fdesc + " frame " + std::to_string(fi) + ": " + std::to_string(gd) + " where the F64 reference instance got " + std::to_string(ref[fi * 2 + (size_t)c])); break; }
                        int64_t got = w == 2 ? (f.type == OPNMIDI_SampleType_U16 ? (int64_t)*(uint16_t *)dst : (int64_t)*(int16_t *)dst) : (f.type == OPNMIDI_SampleType_U32 ? (int64_t)*(uint32_t *)dst : (int64_t)*(int32_t *)dst);
                        int64_t want = w == 2 ? (f.type == OPNMIDI_SampleType_U16 ? (int64_t)*(uint16_t *)bytes : (int64_t)*(int16_t *)bytes) : (f.type == OPNMIDI_SampleType_U32 ? (int64_t)*(uint32_t *)bytes : (int64_t)*(int32_t *)bytes);
                        run.fail("sample-conversion", "type" + std::to_string(f.type) + ".c" + std::to_string(w) + (rv != s ? ".clipped" : ""), fdesc + " frame " + std::to_string(fi) + (c ? " right" : " left") + ": mix " + std::to_string(rv) + " stored as " + std::to_string(got) + ", documented conversion gives " + std::to_string(want)); break;
                    }
                    if(run.failed()) break;
                }
                if(run.failed()) break;
                // nothing else changed
                for(size_t b = 0; b < arena.size(); ++b) if(!mask[b] && arena[b] != poison)
                { run.fail("wrote-outside-reported-samples", "type" + std::to_string(f.type) + ".c" + std::to_string(w) + (f.planar ? ".planar" : ""), fdesc + ": request " + std::to_string(n) + " returned " + std::to_string(ret) + " but byte at offset " + std::to_string((long)b - 64) + " from `left` (outside the reported samples) changed"); break; }
            }
        }
        for(size_t k = 0; k < dev.size(); ++k) opn2_close(dev[k]);
    }

    void shrinkOp(const Op &o, std::vector<Op> &out)
    {
        if((o.kind == R_GENERATE || o.kind == R_PLAY) && o.a[0] > 4) { Op x = o; x.a[0] = o.a[0] / 2; out.push_back(x); x.a[0] = 4; out.push_back(x); }
    }
};

int main(int argc, char **argv)
{
    C13 c;
    return driverMain(c, argc, argv);
}
