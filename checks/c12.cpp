// C12 — bank select + program change pick the documented instrument, with fallbacks.
// Workload: generated bank layouts (random subsets of melodic/percussion banks over MSB/LSB, random blank
// entries, unique operator bytes per (bank, program)); histories of CC0/CC32, opn2_rt_bankChange*, program
// change, GM/GS/XG mode SysEx, GS drum-part SysEx, XG MSB 126/127, notes on channel 9 and others, and
// opn2_setInstrument / opn2_getBank(Create) / opn2_removeBank between notes.
// Oracle: RefBankMap + per-channel MIDI state resolve (mode, role, MSB, LSB, program, key) -> expected
// instrument by the property's three-step rule; after each accepted note-on the instrument cached/written
// for the chosen chip channel equals that instrument; all-blank => return 0 and no key-on; percussion pitch
// comes from the drum key.
#include "../sim/snapshot.hpp"
#include "../sim/songgen.hpp"

using namespace sim;

enum { B_NOTE = 0, B_CC_BANK, B_RT_BANK, B_PATCH, B_MODE, B_GS_DRUM, B_SET_INS, B_CREATE_BANK, B_REMOVE_BANK, B_COUNT };
static const char *bName(int k)
{
    static const char *n[] = { "noteOn", "ccBankSelect", "rtBankChange", "patchChange", "modeSysEx", "gsDrumPart", "setInstrument", "getBankCreate", "removeBank" };
    return k >= 0 && k < B_COUNT ? n[k] : "?";
}

struct MIns { uint8_t ops[4][7]; uint8_t fbalg, lfosens; int16_t noteOffset; uint8_t percKey; bool blank; };
typedef std::map<uint32_t, std::vector<MIns> > RefBankMap; // key = bankno | 0x8000 for percussion

static MIns fromGen(const GenIns &g)
{
    MIns m; memcpy(m.ops, g.ops, sizeof m.ops); m.fbalg = g.fbalg; m.lfosens = g.lfosens; m.noteOffset = g.noteOffset; m.percKey = g.percKey; m.blank = g.blank;
    return m;
}

class C12 : public Check
{
public:
    const char *id() { return "C12"; }
    const char *opName(int k) { return bName(k); }
    int quickRuns() { return 50000; }
    int quickSeconds() { return 90; }
    int thoroughSeconds() { return 900; }
    const char *rule()
    {
        return "each run = a generated bank layout (1-4 melodic + 1-4 percussion banks on colliding MSB/LSB values, 35% blank entries, unique operator bytes) and a seeded history of bank-select/program/mode/drum-part/bank-API calls with probe note-ons; "
               "distinct = distinct (mode, channel role, which fallback step resolved: exact/LSB-cleared/bank0/none, via CC or rt API, SFX kit?) tuples";
    }
    std::vector<std::string> realComponents() { return { "OPNMIDIplay::realTime_NoteOn bank/instrument resolution, bank map, SysEx mode handling, OPN2::setPatch/noteOn" }; }
    std::vector<std::string> stubComponents() { return { "none" }; }
    std::vector<std::string> requiredProbes() { return { "step.exact", "step.lsb_cleared", "step.bank0", "step.none_blank", "role.ch9", "role.xg_msb", "role.gs_part", "sfx_kit_offset", "gs_lsb_ignored", "replaced_instrument_played", "removed_bank_fallback" }; }

    void generate(Rng &r, Plan &p, bool thorough)
    {
        p.cfg["bankseed"] = (int64_t)r.below(100000);
        p.cfg["nmel"] = (int64_t)r.range(1, 4); p.cfg["nperc"] = (int64_t)r.range(1, 4);
        int len = (int)r.range(20, thorough ? 200 : 120);
        for(int i = 0; i < len; ++i)
        {
            Op o; o.kind = (int)r.weighted({ 40, 16, 5, 14, 4, 3, 5, 2, 2 });
            int ch = r.chance(0.3) ? 9 : (int)r.below(16);
            static const std::vector<int> bankVals = { 0, 0, 0, 1, 2, 3, 8, 64, 126, 127 };
            switch(o.kind)
            {
            case B_NOTE: o.a[0] = ch; o.a[1] = (int64_t)r.range(20, 100); o.a[2] = (int64_t)r.range(1, 127); break;
            case B_CC_BANK: o.a[0] = ch; o.a[1] = r.chance(0.55) ? 0 : 32; o.a[2] = r.pick(bankVals); break;
            case B_RT_BANK: o.a[0] = ch; o.a[1] = (int64_t)r.below(3); o.a[2] = r.pick(bankVals); o.a[3] = r.pick(bankVals); break;
            case B_PATCH: o.a[0] = ch; o.a[1] = r.chance(0.7) ? (int64_t)r.below(8) : (int64_t)r.below(128); break;
            case B_MODE: o.a[0] = (int64_t)r.below(3); break;
            case B_GS_DRUM: o.a[0] = (int64_t)r.below(16); o.a[1] = (int64_t)r.below(3); break;
            case B_SET_INS: o.a[0] = (int64_t)r.below(8); o.a[1] = r.chance(0.7) ? (int64_t)r.below(8) : (int64_t)r.below(128); o.a[2] = (int64_t)r.below(1u << 30); o.a[3] = r.chance(0.15); break;
            case B_CREATE_BANK: o.a[0] = (int64_t)r.below(2); o.a[1] = r.pick(bankVals); o.a[2] = r.pick(bankVals); break;
            case B_REMOVE_BANK: o.a[0] = (int64_t)r.below(8); break;
            }
            p.ops.push_back(o);
        }
    }

    static double decodeHz(unsigned a4, unsigned a0, bool opna)
    {
        unsigned ft = (a4 << 8) | a0, block = (ft >> 11) & 7, fnum = ft & 0x7FF;
        double clk = opna ? 7987200.0 : 7670454.0;
        return (double)fnum * std::ldexp(1.0, (int)block - 21) * clk / 144.0;
    }

    void execute(const Plan &p, Run &run)
    {
        SimFsScope fs; g_fs.reset();
        tapInstall(true);
        // ---- bank layout
        Rng br(mix64((uint64_t)p.get("bankseed"), 0xC12));
        GenWopn gw; gw.version = 2; gw.lfoFreq = 0; gw.chipType = 0;
        int nmel = (int)p.get("nmel", 1), nperc = (int)p.get("nperc", 1);
        RefBankMap ref;
        std::set<uint32_t> usedKeys;
        for(int s = 0; s < 2; ++s)
        {
            int n = s ? nperc : nmel;
            for(int j = 0; j < n; ++j)
            {
                GenBank b; unsigned msb = 0, lsb = 0;
                for(int t = 0; t < 30; ++t)
                {
                    if(s == 0) { msb = j == 0 ? 0 : (unsigned)br.pick<int>({ 0, 1, 2, 8, 64 }); lsb = j == 0 ? 0 : (unsigned)br.pick<int>({ 0, 1, 2, 3 }); }
                    else { msb = 0; lsb = j == 0 ? 0 : (unsigned)br.pick<int>({ 1, 2, 3, 5, 128, 129, 130, 131 }); }
                    uint32_t k = (msb << 8) | lsb | (s ? 0x8000u : 0);
                    if(usedKeys.insert(k).second) break;
                    if(t == 29) { lsb = 200 + (unsigned)j; usedKeys.insert((msb << 8) | lsb | (s ? 0x8000u : 0)); }
                }
                b.msb = (uint8_t)msb; b.lsb = (uint8_t)lsb;
                std::vector<MIns> mi(128);
                for(int k = 0; k < 128; ++k)
                {
                    fillIns(br, b.ins[k], (unsigned)k, (unsigned)(s * 16 + j), (unsigned)(msb * 7 + lsb), false);
                    b.ins[k].noteOffset = (int16_t)(br.chance(0.8) ? 0 : br.range(-12, 12));
                    if(s) b.ins[k].percKey = (uint8_t)(br.chance(0.8) ? br.range(30, 80) : 0);
                    if(br.chance(j == 0 ? 0.2 : 0.4)) { b.ins[k].blank = true; b.ins[k].delayOn = b.ins[k].delayOff = 0; }
                    mi[(size_t)k] = fromGen(b.ins[k]);
                }
                (s ? gw.perc : gw.mel).push_back(b);
                ref[((uint32_t)msb << 8) | lsb | (s ? 0x8000u : 0)] = mi;
            }
        }
        std::vector<uint8_t> img = writeWopn(gw);
        OPN2_MIDIPlayer *dev = opn2_init(44100);
        // a third of the runs load another bank file first whose banks sit at every number the generator picks from, none blank:
        // "the instrument stored at (MSB, LSB, program)" means stored by the file loaded last - what an earlier file stored there is gone
        if(mix64((uint64_t)p.get("bankseed"), 0x0DDB) % 3 == 0)
        {
            Rng pr(mix64((uint64_t)p.get("bankseed"), 0x0DDC)); GenWopn pw; pw.version = 2; pw.lfoFreq = 0; pw.chipType = 0;
            static const int pm[] = { 0, 1, 2, 8, 64 }, pll[] = { 0, 1, 2, 3 }, pp[] = { 0, 1, 2, 3, 5, 128, 129, 130, 131 };
            for(int a = 0; a < 5; ++a) for(int c = 0; c < 4; ++c) { GenBank b; b.msb = (uint8_t)pm[a]; b.lsb = (uint8_t)pll[c]; for(int k = 0; k < 128; ++k) fillIns(pr, b.ins[k], (unsigned)k, 77u, (unsigned)(900 + a * 4 + c), false); pw.mel.push_back(b); }
            for(int c = 0; c < 9; ++c) { GenBank b; b.msb = 0; b.lsb = (uint8_t)pp[c]; for(int k = 0; k < 128; ++k) { fillIns(pr, b.ins[k], (unsigned)k, 78u, (unsigned)(950 + c), false); b.ins[k].percKey = 60; } pw.perc.push_back(b); }
            std::vector<uint8_t> pimg = writeWopn(pw);
            if(opn2_openBankData(dev, pimg.data(), (long)pimg.size()) == 0) run.count("bank_loaded_over_an_earlier_bank_file");
        }
        if(opn2_openBankData(dev, img.data(), (long)img.size()) != 0) { run.fail("bank-load-failed", "setup", opn2_errorInfo(dev)); opn2_close(dev); tapInstall(false); return; }
        opn2_switchEmulator(dev, OPNMIDI_EMU_GENS);
        opn2_setNumChips(dev, 2);
        OPNMIDIplay *pl = Acc::P(dev);
        OPN2 *synth = pl->m_synth.get();
        // ---- model state
        int mode = 2; // XG default
        int msb[16] = { 0 }, lsb[16] = { 0 }, patch[16] = { 0 }; bool drum[16] = { false };
        static const uint8_t gsMap[16] = { 9, 0, 1, 2, 3, 4, 5, 6, 7, 8, 10, 11, 12, 13, 14, 15 };
        std::set<uint32_t> replaced; // (bank<<8 | prog) entries written through the API
        for(size_t i = 0; i < p.ops.size() && !run.failed(); ++i)
        {
            const Op &o = p.ops[i];
            noteOp((int)i, o.kind);
            int ch = (int)o.a[0] & 15;
            switch(o.kind)
            {
            case B_CC_BANK:
                opn2_rt_controllerChange(dev, (OPN2_UInt8)ch, (OPN2_UInt8)o.a[1], (OPN2_UInt8)o.a[2]);
                if(o.a[1] == 0) msb[ch] = (int)o.a[2]; else lsb[ch] = (int)o.a[2];
                if(mode != 1) drum[ch] = (msb[ch] == 126 || msb[ch] == 127);
                break;
            case B_RT_BANK:
                if(o.a[1] == 0) { opn2_rt_bankChangeMSB(dev, (OPN2_UInt8)ch, (OPN2_UInt8)o.a[2]); msb[ch] = (int)o.a[2]; }
                else if(o.a[1] == 1) { opn2_rt_bankChangeLSB(dev, (OPN2_UInt8)ch, (OPN2_UInt8)o.a[3]); lsb[ch] = (int)o.a[3]; }
                else { opn2_rt_bankChange(dev, (OPN2_UInt8)ch, (OPN2_SInt16)((o.a[2] << 8) | o.a[3])); msb[ch] = (int)o.a[2]; lsb[ch] = (int)o.a[3]; }
                if(mode != 1) drum[ch] = (msb[ch] == 126 || msb[ch] == 127);
                break;
            case B_PATCH: opn2_rt_patchChange(dev, (OPN2_UInt8)ch, (OPN2_UInt8)o.a[1]); patch[ch] = (int)o.a[1]; break;
            case B_MODE:
            {
                std::vector<uint8_t> m;
                if(o.a[0] == 0) m = { 0xF0, 0x7E, 0x7F, 0x09, 0x01, 0xF7 };
                else if(o.a[0] == 1) m = { 0xF0, 0x41, 0x10, 0x42, 0x12, 0x40, 0x00, 0x7F, 0x00, 0x41, 0xF7 };
                else m = { 0xF0, 0x43, 0x10, 0x4C, 0x00, 0x00, 0x7E, 0x00, 0xF7 };
                if(opn2_rt_systemExclusive(dev, m.data(), m.size()) != 1) { run.fail("mode-sysex-rejected", bName(o.kind), "mode message " + toHex(m) + " rejected"); break; }
                mode = (int)o.a[0];
                if(mode == 1) for(int c = 0; c < 16; ++c) drum[c] = false; // a GS reset returns every part to its default role
                break;
            }
            case B_GS_DRUM:
            {
                if(mode != 1) break; // the drum-part message belongs to GS mode
                uint8_t c = (uint8_t)o.a[0], v = (uint8_t)o.a[1];
                uint8_t sum = (uint8_t)((128 - ((0x40 + (0x10 | c) + 0x15 + v) & 127)) & 127);
                std::vector<uint8_t> m = { 0xF0, 0x41, 0x10, 0x42, 0x12, 0x40, (uint8_t)(0x10 | c), 0x15, v, sum, 0xF7 };
                if(opn2_rt_systemExclusive(dev, m.data(), m.size()) != 1) { run.fail("drum-part-sysex-rejected", bName(o.kind), toHex(m)); break; }
                drum[gsMap[c]] = (v == 1 || v == 2);
                break;
            }
            case B_SET_INS: case B_REMOVE_BANK:
            {
                if(ref.empty()) break;
                RefBankMap::iterator it = ref.begin(); std::advance(it, (long)((uint64_t)o.a[0] % ref.size()));
                OPN2_BankId id; id.percussive = (it->first & 0x8000) ? 1 : 0; id.msb = (OPN2_UInt8)((it->first >> 8) & 0x7F); id.lsb = (OPN2_UInt8)(it->first & 0xFF);
                if(id.lsb > 127) break; // SFX kits (LSB 128..255) cannot be addressed through OPN2_BankId (fields limited to 127)
                OPN2_Bank bk;
                if(opn2_getBank(dev, &id, 0, &bk) != 0) { run.fail("bank-lookup-failed", bName(o.kind), "bank present in the model not found"); break; }
                if(o.kind == B_REMOVE_BANK)
                {
                    if(it->first == 0 || it->first == 0x8000) break; // keep the default banks
                    opn2_panic(dev); opn2_tickEvents(dev, 0.05, 0.0);
                    if(opn2_removeBank(dev, &bk) != 0) { run.fail("bank-remove-failed", bName(o.kind), ""); break; }
                    ref.erase(it);
                    run.count("bank_removed");
                    break;
                }
                OPN2_Instrument ins = insFromSeed((uint64_t)o.a[2], false);
                ins.inst_flags = o.a[3] ? OPNMIDI_Ins_IsBlank : 0; ins.midi_velocity_offset = 0;
                if(id.percussive) ins.percussion_key_number = (OPN2_UInt8)(30 + (o.a[2] % 50)); else ins.percussion_key_number = 0;
                unsigned prog = (unsigned)o.a[1] & 127;
                if(opn2_setInstrument(dev, &bk, prog, &ins) != 0) { run.fail("setInstrument-failed", bName(o.kind), ""); break; }
                MIns &m = it->second[prog];
                for(int l = 0; l < 4; ++l) { const OPN2_Operator &q = ins.operators[l]; uint8_t b[7] = { q.dtfm_30, q.level_40, q.rsatk_50, q.amdecay1_60, q.decay2_70, q.susrel_80, q.ssgeg_90 }; memcpy(m.ops[l], b, 7); }
                m.fbalg = ins.fbalg; m.lfosens = ins.lfosens; m.noteOffset = ins.note_offset; m.percKey = ins.percussion_key_number; m.blank = (ins.inst_flags & OPNMIDI_Ins_IsBlank) != 0;
                replaced.insert((it->first << 8) | prog);
                break;
            }
            case B_CREATE_BANK:
            {
                OPN2_BankId id; id.percussive = (OPN2_UInt8)o.a[0]; id.msb = (OPN2_UInt8)(o.a[0] ? 0 : o.a[1]); id.lsb = (OPN2_UInt8)o.a[2];
                OPN2_Bank bk;
                if(opn2_getBank(dev, &id, OPNMIDI_Bank_Create, &bk) != 0) { run.fail("bank-create-failed", bName(o.kind), ""); break; }
                uint32_t key = ((uint32_t)id.msb << 8) | id.lsb | (id.percussive ? 0x8000u : 0);
                if(!ref.count(key)) { MIns blank; memset(&blank, 0, sizeof blank); blank.blank = true; ref[key] = std::vector<MIns>(128, blank); }
                break;
            }
            case B_NOTE:
            {
                int key = (int)o.a[1] & 127;
                // clean slate so the probe note gets a channel of its own
                opn2_panic(dev); opn2_tickEvents(dev, 0.05, 0.0); run.simSeconds += 0.05;
                g_tap.recs.clear();
                bool isDrum = (ch == 9) || drum[ch];
                uint32_t bank; int entry;
                if(isDrum)
                {
                    bank = (uint32_t)patch[ch] + ((mode == 2 && msb[ch] == 126) ? 128u : 0u);
                    if(mode == 2 && msb[ch] == 126) run.count("sfx_kit_offset");
                    bank |= 0x8000u; entry = key;
                    run.count(ch == 9 ? "role.ch9" : (mode == 1 ? "role.gs_part" : "role.xg_msb"));
                }
                else
                {
                    bank = mode == 1 ? (uint32_t)(msb[ch] << 8) : (uint32_t)((msb[ch] << 8) | lsb[ch]);
                    if(mode == 1 && lsb[ch] != 0) run.count("gs_lsb_ignored");
                    entry = patch[ch];
                }
                uint32_t tag = bank & 0x8000u;
                uint32_t cands[3] = { bank, (bank & ~0x7Fu), tag };
                const MIns *exp = NULL; int step = -1; uint32_t usedBank = 0;
                for(int s = 0; s < 3 && !exp; ++s)
                {
                    if(s > 0 && cands[s] == cands[s - 1]) continue;
                    RefBankMap::iterator it = ref.find(cands[s]);
                    if(it == ref.end()) { if(s == 0 && (bank & 0x7FFF)) run.count("removed_bank_fallback"); continue; }
                    if(!it->second[(size_t)entry].blank) { exp = &it->second[(size_t)entry]; step = s; usedBank = cands[s]; }
                }
                // which step number in the property's wording
                int stepClass = !exp ? 3 : (usedBank == bank ? 0 : (usedBank == tag ? 2 : 1));
                Hasher h; h.add((uint64_t)mode); h.add(isDrum ? (ch == 9 ? 1u : 2u) : 0u); h.add((uint64_t)stepClass); h.add((bank & 0x7FFF) >= 128 && isDrum);
                run.state(h.h);
                run.count(stepClass == 0 ? "step.exact" : stepClass == 1 ? "step.lsb_cleared" : stepClass == 2 ? "step.bank0" : "step.none_blank");
                int ret = opn2_rt_noteOn(dev, (OPN2_UInt8)ch, (OPN2_UInt8)key, (OPN2_UInt8)o.a[2]);
                run.log.add((uint64_t)ret); run.log.add((uint64_t)stepClass);
                bool keyOn = false; unsigned a4 = 0, a0 = 0; bool gotF = false;
                for(size_t k = 0; k < g_tap.recs.size(); ++k)
                {
                    const TapRec &t = g_tap.recs[k];
                    if(t.isPan) continue;
                    if(t.port == 0 && t.reg == 0x28 && (t.val & 0xF0)) keyOn = true;
                    if((t.reg & 0xFC) == 0xA4) a4 = t.val;
                    if((t.reg & 0xFC) == 0xA0) { a0 = t.val; gotF = true; }
                }
                if(!exp)
                {
                    if(ret != 0) { run.fail("blank-note-accepted", "step-none", "all candidate entries blank/missing but note-on returned " + std::to_string(ret)); break; }
                    if(keyOn) { run.fail("blank-note-keyed-on", "step-none", "all candidate entries blank/missing but a key-on was written"); break; }
                    break;
                }
                if(ret != 1) { run.fail("playable-note-rejected", "step" + std::to_string(stepClass), "expected instrument of bank " + std::to_string(usedBank) + " entry " + std::to_string(entry) + " but note-on returned 0 (mode " + std::to_string(mode) + ", msb " + std::to_string(msb[ch]) + ", lsb " + std::to_string(lsb[ch]) + ", drum " + std::to_string(isDrum) + ")"); break; }
                OPNMIDIplay::MIDIchannel::notes_iterator ni = pl->m_midiChannels[(size_t)ch].find_activenote((unsigned)key);
                if(ni.is_end() || ni->value.chip_channels_count == 0) { run.fail("accepted-note-without-channel", bName(o.kind), ""); break; }
                unsigned c = ni->value.chip_channels[0].chip_chan;
                const OpnTimbre &t = Acc::insCache(synth)[c];
                bool same = t.fbalg == exp->fbalg && t.lfosens == exp->lfosens && t.noteOffset == exp->noteOffset;
                for(int l = 0; l < 4 && same; ++l) if(memcmp(t.OPS[l].data, exp->ops[l], 7) != 0) same = false;
                if(!same)
                {
                    // who is it then? identity tags: ops[0][4]=program, ops[1][4]=bank tag
                    run.fail("wrong-instrument", "step" + std::to_string(stepClass) + (isDrum ? ".drum" : ".mel"), "mode " + std::to_string(mode) + " ch " + std::to_string(ch) + " msb " + std::to_string(msb[ch]) + " lsb " + std::to_string(lsb[ch]) + " prog " + std::to_string(patch[ch]) + " key " + std::to_string(key) +
                             ": expected entry " + std::to_string(entry) + " of bank " + std::to_string(usedBank) + " (tags " + std::to_string(exp->ops[0][4]) + "/" + std::to_string(exp->ops[1][4]) + "), chip got tags " + std::to_string(t.OPS[0].data[4]) + "/" + std::to_string(t.OPS[1].data[4]));
                    break;
                }
                // the register stream carries the same bytes (0x50..0x9F of the patch, 0xB0)
                {
                    unsigned chip = c / 6, port = (c % 6) < 3 ? 0 : 1, cc3 = (c % 6) % 3; bool regsOk = true; int seen = 0;
                    for(size_t k = 0; k < g_tap.recs.size(); ++k)
                    {
                        const TapRec &tr = g_tap.recs[k];
                        if(tr.isPan || tr.chip != chip || tr.port != port) continue;
                        if(tr.reg >= 0x50 && tr.reg < 0xA0 && (tr.reg & 3) == cc3) { int d = (tr.reg - 0x30) >> 4, op = (tr.reg >> 2) & 3; if(tr.val != exp->ops[op][d]) regsOk = false; ++seen; }
                        if(tr.reg == 0xB0 + cc3) { if(tr.val != exp->fbalg) regsOk = false; ++seen; }
                    }
                    if(!regsOk || seen < 21) { run.fail("register-stream-mismatch", "step" + std::to_string(stepClass), "patch registers written for chip channel " + std::to_string(c) + " differ from the expected instrument (" + std::to_string(seen) + " writes seen)"); break; }
                }
                if(replaced.count((usedBank << 8) | (uint32_t)entry)) run.count("replaced_instrument_played");
                if(isDrum && gotF)
                {
                    int tone = exp->percKey ? (exp->percKey >= 128 ? exp->percKey - 128 : exp->percKey) : key;
                    double pnote = (double)tone + (double)exp->noteOffset;
                    double ideal = 440.0 * std::pow(2.0, (pnote - 69.0) / 12.0);
                    double hz = decodeHz(a4, a0, opn2_getChipType(dev) == OPNMIDI_ChipType_OPNA);
                    if(ideal < 6000.0 && ideal > 20.0 && std::fabs(hz - ideal) > ideal * 0.02)
                    { run.fail("drum-pitch-not-from-drum-key", "drum", "drum key " + std::to_string(tone) + " (+" + std::to_string(exp->noteOffset) + ") => " + std::to_string(ideal) + " Hz but chip programmed " + std::to_string(hz) + " Hz (played key " + std::to_string(key) + ")"); break; }
                }
                break;
            }
            }
        }
        opn2_close(dev);
        tapInstall(false);
    }
};

int main(int argc, char **argv)
{
    C12 c;
    return driverMain(c, argc, argv);
}
