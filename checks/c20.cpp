// variant: fast
// C20 — every emulator core sounds the programmed pitch and goes silent on release.
// Workload: a generated pure-tone bank (algorithm 7, one carrier at level 0, instant attack, fastest release);
// per run: emulator (8 audio cores) x chip family x output rate (8000..192000 incl. 53267/55466) x run-at-PCM-rate
// x chips 1..3 x key 24..108; scenario A: one held note 300 ms, release, 300 ms; scenario B: a BURST of 1..400
// events issued without advancing time (chords, CC7/bend storms on sounding notes, panic), then everything
// released and rendered; scenario C: panic / reset mid-note.
// Oracle (DSP on the PCM history): idle level L0 = what the instance rendered before any note; fundamental by
// interpolated zero crossings within 0.5 % (1 % below 22.05 kHz) of 440*2^((key-69)/12) (skipped in run-at-PCM-rate
// mode); onset <= 10 ms after the note-on call; RMS > 1 % FS while held; after release + 100 ms, and after
// panic/reset, |x - L0| <= 1 % FS for the rest (bounded liveness).
#include "../sim/apiops.hpp"

extern "C" void opn2_set_vgm_out_path(const char *path);
using namespace sim;

enum { D_SCENARIO = 0 };

class C20 : public Check
{
public:
    const char *id() { return "C20"; }
    const char *opName(int) { return "scenario"; }
    int quickRuns() { return 8000; }
    int quickSeconds() { return 90; }
    int thoroughSeconds() { return 1200; }
    int cpuBudgetSec() { return 60; }
    const char *rule()
    {
        return "each run = one (core, family, output rate, run-at-PCM-rate, chips, key, scenario A/B/C, burst plan) cell rendered with scheduler-chosen request sizes; DSP oracle on the PCM history; "
               "distinct = distinct (core, family, rate, pcm-rate mode, scenario, key octave) cells";
    }
    std::vector<std::string> realComponents() { return { "all 8 audio emulator cores incl. the YMFM write ring, OPNChipBaseT resamplers, OPN2 register layer, player" }; }
    std::vector<std::string> stubComponents() { return { "none (fast -O2 build, no sanitizer: this check judges sound)" }; }
    std::vector<std::string> requiredProbes() { return { "core.0", "core.1", "core.2", "core.3", "core.4", "core.5", "core.6", "core.8", "scenario.A", "scenario.B", "scenario.C", "pcm_rate_mode", "pitch_measured", "burst_gt_500_writes", "rate_lt_22050", "native_rate" }; }
    std::vector<std::string> assumptions() { return { "full scale = 32768; silence threshold 1 % FS, onset threshold 2 % FS, release time of the pure-tone instrument bounded by 100 ms (RR=15)", "pitch is measured only when the nominal frequency is below 0.4 x the output rate" }; }

    void generate(Rng &r, Plan &p, bool thorough)
    {
        static const int cores[8] = { 0, 1, 2, 3, 4, 5, 6, 8 };
        int core = cores[r.weighted({ 16, 3, 18, 12, 14, 12, 12, 3 })];
        p.cfg["core"] = core;
        p.cfg["family"] = (int64_t)r.below(2);
        p.cfg["rate"] = r.pick<int>({ 8000, 11025, 22050, 44100, 48000, 53267, 55466, 96000, 192000 });
        p.cfg["pcmrate"] = r.chance(0.25);
        p.cfg["chips"] = (int64_t)r.range(1, 3);
        p.cfg["key"] = (int64_t)r.range(24, 108);
        p.cfg["scenario"] = (int64_t)r.weighted({ 5, 4, 2, 3 });
        p.cfg["burst"] = (int64_t)r.pick<int>({ 1, 5, 20, 60, 120, 200, 400 });
        p.cfg["sliceseed"] = (int64_t)r.below(1u << 30);
        (void)thorough;
        p.ops.push_back(Op(D_SCENARIO));
    }

    static std::vector<uint8_t> toneBank(int family)
    {
        GenWopn w; w.version = 2; w.lfoFreq = 0; w.chipType = (uint8_t)family; w.mel.resize(1); w.perc.resize(1);
        for(int s = 0; s < 2; ++s) for(int k = 0; k < 128; ++k)
        {
            GenIns &in = (s ? w.perc : w.mel)[0].ins[k]; memset(&in, 0, sizeof in); snprintf(in.name, sizeof in.name, "tone");
            in.fbalg = 0x07; in.lfosens = 0; in.noteOffset = 0; in.percKey = 0;
            for(int l = 0; l < 4; ++l) { uint8_t v[7] = { 0x01, (uint8_t)(l == 0 ? 0x00 : 0x7F), 0x1F, 0x00, 0x00, 0x0F, 0x00 }; memcpy(in.ops[l], v, 7); }
            in.delayOn = 40000; in.delayOff = 100; in.blank = false;
        }
        return writeWopn(w);
    }

    struct Renderer
    {
        OPN2_MIDIPlayer *dev; long rate; Rng sl; std::vector<short> pcm; // left channel only is judged (mono tone, centre pan)
        void render(double seconds)
        {
            long need = (long)std::ceil(seconds * (double)rate);
            while(need > 0)
            {
                long fr = (long)sl.pick<int>({ 1, 16, 255, 256, 511, 512, 513, 1024, 4096 }); if(fr > need) fr = need;
                std::vector<short> buf((size_t)fr * 2); int got = opn2_generate(dev, (int)fr * 2, buf.data());
                for(int i = 0; i < got; i += 2) pcm.push_back(buf[(size_t)i]);
                need -= fr;
            }
        }
    };

    // frequency from interpolated positive-going zero crossings of (x - mean), with hysteresis
    static double measureHz(const std::vector<short> &x, size_t a, size_t b, long rate, double &rms)
    {
        if(b <= a + 8) { rms = 0; return 0; }
        double mean = 0; for(size_t i = a; i < b; ++i) mean += x[i]; mean /= (double)(b - a);
        double e = 0, peak = 0; for(size_t i = a; i < b; ++i) { double v = x[i] - mean; e += v * v; if(std::fabs(v) > peak) peak = std::fabs(v); }
        rms = std::sqrt(e / (double)(b - a));
        double hyst = peak * 0.2; bool armed = false; double first = -1, last = -1; long n = 0;
        for(size_t i = a + 1; i < b; ++i)
        {
            double p0 = x[i - 1] - mean, p1 = x[i] - mean;
            if(p1 < -hyst) armed = true;
            if(armed && p0 < 0 && p1 >= 0) { double t = (double)(i - 1) + (-p0) / (p1 - p0); if(first < 0) first = t; last = t; ++n; armed = false; }
        }
        if(n < 3) return 0;
        return (double)(n - 1) / ((last - first) / (double)rate);
    }

    void execute(const Plan &p, Run &run)
    {
        SimFsScope fs; g_fs.reset();
        opn2_set_vgm_out_path("kek.vgm");
        const int core = (int)p.get("core", 0), family = (int)p.get("family", 0), key = (int)p.get("key", 60), scenario = (int)p.get("scenario", 0);
        const long rate = (long)p.get("rate", 44100); const bool pcmRate = p.get("pcmrate", 0) != 0;
        noteOp(0, D_SCENARIO);
        std::vector<uint8_t> bank = toneBank(family);
        Renderer R; R.rate = rate; R.sl.reseed(mix64((uint64_t)p.get("sliceseed"), 0x511CE));
        R.dev = opn2_init(rate);
        opn2_openBankData(R.dev, bank.data(), (long)bank.size());
        if(opn2_switchEmulator(R.dev, core) != 0) { run.fail("core-unavailable", "core" + std::to_string(core), ""); opn2_close(R.dev); return; }
        opn2_setNumChips(R.dev, (int)p.get("chips", 1));
        opn2_setRunAtPcmRate(R.dev, pcmRate);
        tapInstall(true);
        run.count(("core." + std::to_string(core)).c_str()); if(pcmRate) run.count("pcm_rate_mode"); if(rate < 22050) run.count("rate_lt_22050"); if(rate == 53267 || rate == 55466) run.count("native_rate");
        const char *scn = scenario == 0 ? "A" : scenario == 1 ? "B" : scenario == 2 ? "C" : "D"; run.count((std::string("scenario.") + scn).c_str());
        std::string cell = "core " + std::to_string(core) + " (" + opn2_chipEmulatorName(R.dev) + ") family " + std::to_string(family) + " rate " + std::to_string(rate) + (pcmRate ? " run-at-PCM-rate" : "") + " chips " + std::to_string(p.get("chips", 1)) + " key " + std::to_string(key);
        std::string sig = "core" + std::to_string(core) + (pcmRate ? ".pcmrate" : "");
        const double FS = 32768.0;
        // ---- idle level
        R.render(0.05);
        double L0 = 0; { size_t n = R.pcm.size(), from = n / 2; for(size_t i = from; i < n; ++i) L0 += R.pcm[i]; L0 /= (double)(n - from); }
        for(size_t i = R.pcm.size() / 2; i < R.pcm.size(); ++i) if(std::fabs(R.pcm[i] - L0) > 0.01 * FS) { run.fail("idle-not-constant", sig, cell + ": output before any note is not a constant level"); break; }
        auto quietFrom = [&](size_t from, const char *what) -> bool
        {
            for(size_t i = from; i < R.pcm.size(); ++i) if(std::fabs(R.pcm[i] - L0) > 0.01 * FS)
            { run.fail("not-silent", std::string(what) + "." + sig, cell + ": " + what + ": sample " + std::to_string(R.pcm[i]) + " at " + std::to_string((double)(i - from) / (double)rate * 1000.0) + " ms after the silence deadline (idle level " + std::to_string(L0) + ", allowed +-" + std::to_string(0.01 * FS) + ")"); return false; }
            return true;
        };
        Hasher st; st.add((uint64_t)core); st.add((uint64_t)family); st.add((uint64_t)rate); st.add(pcmRate); st.add((uint64_t)scenario); st.add((uint64_t)(key / 12)); run.state(st.h);
        if(!run.failed() && scenario == 3)
        {
            // ---- D: a chord; every one of its notes must be audible while held (amplitude at its own fundamental)
            Rng cr(mix64((uint64_t)p.get("sliceseed"), 0xC40D));
            const int chips = (int)p.get("chips", 1); int n = (int)cr.range(2, 6); if(n > 6 * chips) n = 6 * chips;
            static const int steps[6] = { 0, 4, 7, 11, 14, 17 };
            int base = key; if(base > 84) base = 84; if(base < 30) base = 30;
            std::vector<int> keys; for(int i = 0; i < n; ++i) keys.push_back(base + steps[i]);
            size_t t0 = R.pcm.size();
            for(int i = 0; i < n; ++i) if(opn2_rt_noteOn(R.dev, 0, (OPN2_UInt8)keys[(size_t)i], 127) != 1) run.fail("playable-note-rejected", sig, cell);
            R.render(0.3);
            size_t t1 = R.pcm.size();
            if(!run.failed() && !pcmRate)
            {
                size_t a = t0 + (size_t)(0.1 * (double)rate), b = a + (size_t)(0.1 * (double)rate); if(b > t1) b = t1;
                double mean = 0; for(size_t i = a; i < b; ++i) mean += R.pcm[i]; mean /= (double)(b - a);
                std::vector<double> amp; std::vector<int> judged;
                for(int i = 0; i < n; ++i)
                {
                    double nominal = 440.0 * std::pow(2.0, (keys[(size_t)i] - 69) / 12.0); if(!(nominal < 0.4 * (double)rate)) continue;
                    double best = 0;
                    for(int dq = -2; dq <= 2; ++dq)
                    {
                        double f = nominal * (1.0 + 0.005 * dq), re = 0, im = 0, w = 2.0 * M_PI * f / (double)rate;
                        for(size_t q = a; q < b; ++q) { double v = R.pcm[q] - mean, ph = w * (double)(q - a); re += v * std::cos(ph); im -= v * std::sin(ph); }
                        double m = 2.0 * std::sqrt(re * re + im * im) / (double)(b - a); if(m > best) best = m;
                    }
                    amp.push_back(best); judged.push_back(keys[(size_t)i]);
                }
                if(amp.size() >= 2)
                {
                    std::vector<double> srt = amp; std::sort(srt.begin(), srt.end()); double med = srt[srt.size() / 2];
                    run.count("chord_notes_measured", amp.size());
                    for(size_t i = 0; i < amp.size() && !run.failed(); ++i)
                        if(amp[i] < 0.25 * med || amp[i] < 0.003 * FS)
                            run.fail("chord-note-inaudible", sig, cell + ": chord of " + std::to_string(n) + " keys from " + std::to_string(base) + ": key " + std::to_string(judged[i]) + " has amplitude " + std::to_string(amp[i]) + " at its fundamental while the chord's median is " + std::to_string(med));
                    run.log.add((uint64_t)med);
                }
            }
            if(!run.failed())
            {
                for(int i = 0; i < n; ++i) opn2_rt_noteOff(R.dev, 0, (OPN2_UInt8)keys[(size_t)i]);
                R.render(0.1);
                size_t dl = R.pcm.size();
                R.render(0.3);
                quietFrom(dl, "after-chord-release");
            }
        }
        else if(!run.failed() && scenario != 1)
        {
            // ---- A / C: one held note
            size_t t0 = R.pcm.size();
            if(opn2_rt_noteOn(R.dev, 0, (OPN2_UInt8)key, 127) != 1) run.fail("playable-note-rejected", sig, cell);
            R.render(0.3);
            size_t t1 = R.pcm.size();
            // pitch, onset and audibility are promised for emulators running at their native rate only
            if(!run.failed() && !pcmRate)
            {
                size_t onset = t1; for(size_t i = t0; i < t1; ++i) if(std::fabs(R.pcm[i] - L0) > 0.02 * FS) { onset = i; break; }
                if(onset == t1) run.fail("note-inaudible", sig, cell + ": no sample leaves the idle level by more than 2 % FS during 300 ms of a held note");
                else if((double)(onset - t0) / (double)rate > 0.010) run.fail("onset-late", sig, cell + ": first audible sample " + std::to_string((double)(onset - t0) / (double)rate * 1000.0) + " ms after the note-on");
            }
            if(!run.failed() && !pcmRate)
            {
                double rms; double hz = measureHz(R.pcm, t0 + (size_t)(0.05 * (double)rate), t1, rate, rms);
                double nominal = 440.0 * std::pow(2.0, (key - 69) / 12.0);
                if(rms < 0.01 * FS) run.fail("held-note-too-quiet", sig, cell + ": RMS " + std::to_string(rms) + " while held");
                else if(nominal < 0.4 * (double)rate)
                {
                    double tol = rate < 22050 ? 0.01 : 0.005;
                    run.count("pitch_measured");
                    if(hz <= 0 || std::fabs(hz - nominal) > nominal * tol) run.fail("wrong-pitch", sig, cell + ": measured " + std::to_string(hz) + " Hz, nominal " + std::to_string(nominal) + " Hz (tolerance " + std::to_string(tol * 100) + " %)");
                }
                run.log.add((uint64_t)(hz * 100)); run.log.add((uint64_t)rms);
            }
            if(!run.failed())
            {
                if(scenario == 0) opn2_rt_noteOff(R.dev, 0, (OPN2_UInt8)key);
                else if(R.sl.chance(0.5)) opn2_panic(R.dev); else { opn2_reset(R.dev); }
                R.render(0.1);
                size_t dl = R.pcm.size();
                R.render(0.3);
                quietFrom(dl, scenario == 0 ? "after-release" : "after-panic-or-reset");
            }
        }
        else if(!run.failed())
        {
            // ---- B: burst of events at the highest rate a caller can produce (no time advance in between)
            int k = (int)p.get("burst", 20); Rng br(mix64((uint64_t)p.get("sliceseed"), 0xB0257));
            std::vector<std::pair<int, int> > on;
            // half of the bursts start with the release of notes that were already sounding: those key-offs are the oldest
            // writes of the burst, i.e. the ones a bounded write queue between player and chip would lose first
            std::vector<std::pair<int, int> > prelude;
            if(br.chance(0.5))
            {
                int np = (int)br.range(1, 3);
                for(int q = 0; q < np; ++q) { int c = 13 + q, n = (int)br.range(48, 84); opn2_rt_noteOn(R.dev, (OPN2_UInt8)c, (OPN2_UInt8)n, 127); prelude.push_back(std::make_pair(c, n)); }
                R.render(0.05);
                run.count("burst_starts_with_release_of_sounding_notes");
            }
            const bool panicInBurst = br.chance(0.4);   // a panic re-silences every chip channel and would mask writes lost earlier in the burst
            uint64_t w0 = g_tap.total;
            for(size_t q = 0; q < prelude.size(); ++q) opn2_rt_noteOff(R.dev, (OPN2_UInt8)prelude[q].first, (OPN2_UInt8)prelude[q].second);
            for(int i = 0; i < k; ++i)
            {
                switch(br.weighted({ 30, 10, 25, 25, panicInBurst ? 2 : 0 }))
                {
                case 0: { int c = (int)br.below(8), n = (int)br.range(36, 96); opn2_rt_noteOn(R.dev, (OPN2_UInt8)c, (OPN2_UInt8)n, 127); on.push_back(std::make_pair(c, n)); break; }
                case 1: if(!on.empty()) { size_t q = br.below(on.size()); opn2_rt_noteOff(R.dev, (OPN2_UInt8)on[q].first, (OPN2_UInt8)on[q].second); on.erase(on.begin() + (long)q); } break;
                case 2: opn2_rt_controllerChange(R.dev, (OPN2_UInt8)br.below(8), 7, (OPN2_UInt8)br.range(60, 127)); break;
                case 3: opn2_rt_pitchBend(R.dev, (OPN2_UInt8)br.below(8), (OPN2_UInt16)br.below(16384)); break;
                default: opn2_panic(R.dev); on.clear(); break;
                }
            }
            // finally: the probe note on its own channel, still inside the burst
            opn2_rt_noteOn(R.dev, 12, (OPN2_UInt8)key, 127);
            uint64_t burstWrites = g_tap.total - w0; if(burstWrites / (uint64_t)p.get("chips", 1) > 500) run.count("burst_gt_500_writes");
            R.render(0.15);
            // release everything
            for(size_t q = 0; q < on.size(); ++q) opn2_rt_noteOff(R.dev, (OPN2_UInt8)on[q].first, (OPN2_UInt8)on[q].second);
            opn2_rt_noteOff(R.dev, 12, (OPN2_UInt8)key);
            for(int c = 0; c < 16; ++c) opn2_rt_controllerChange(R.dev, (OPN2_UInt8)c, 123, 0);
            R.render(0.1);
            size_t dl = R.pcm.size();
            R.render(0.3);
            quietFrom(dl, "after-burst-release");
            run.log.add(burstWrites);
        }
        run.simSeconds += (double)R.pcm.size() / (double)rate;
        Hasher h; h.addBytes(R.pcm.data(), R.pcm.size() * 2); run.log.add(h.h);
        tapInstall(false);
        opn2_close(R.dev);
    }
};

int main(int argc, char **argv)
{
    C20 c;
    return driverMain(c, argc, argv);
}
