// variant: vg
// phase: 2
// C14 (phase 3 of 3: indeterminate memory) — "repeating the history reproduces the output bit for bit".
// Output that depends on uninitialised memory is a function of whatever the allocator hands out, i.e. of the process
// history (other instances created and closed before), and no comparison of two executions is guaranteed to see it:
// ASan fills fresh blocks with one constant, a fresh process mostly gets zero pages. This phase therefore executes a
// sample of the same multi-task plans (single thread, small renders) in a freshly exec'ed process under valgrind's
// memcheck, whose definedness bits make "a branch or an address depends on an uninitialised value" a deterministic
// observation for that plan. A report counts when its innermost frame is library code.
#include "../sim/multitask.hpp"
#include <sys/stat.h>

extern "C" void opn2_set_vgm_out_path(const char *path);
using namespace sim;

class C14V : public Check
{
public:
    const char *id() { return "C14"; }
    const char *opName(int k) { return mtOpName(k); }
    int quickRuns() { return 160; }
    int recheckEvery() { return 12; }
    int quickSeconds() { return 120; }
    int thoroughSeconds() { return 900; }
    int cpuBudgetSec() { return 300; }
    const char *rule()
    {
        return "each run = one multi-task plan (2-3 tasks, 8 audio cores, small renders) executed on one thread in a freshly exec'ed process under valgrind memcheck; "
               "every 'uninitialised value' report whose innermost frame is library code is a violation classed by that function; distinct = distinct (core of task 0, core of task 1) pairs";
    }
    const char *technique() { return "deterministic simulation: seeded task interleaving executed under valgrind memcheck (definedness tracking as the oracle for history-dependent output)"; }
    std::vector<std::string> realComponents() { return { "the whole library (plain -O1 build) on valgrind's synthetic CPU" }; }
    std::vector<std::string> stubComponents() { return { "none (VGM dumper core excluded)" }; }
    std::vector<std::string> requiredProbes() { return { "valgrind_run" }; }

    void generate(Rng &r, Plan &p, bool thorough) { mtGenerate(r, p, thorough, true); p.cfg["phase"] = 2; p.cfg["threaded"] = 0; }

    static bool harnessFile(const std::string &f)
    {
        static const char *h[] = { "c14v.cpp", "multitask.hpp", "apiops.hpp", "engine.hpp", "lib.hpp", "simfs.hpp", "songgen.hpp", "formats.hpp", "plan.hpp", "rng.hpp", "seqmodel.hpp", "snapshot.hpp" };
        for(size_t i = 0; i < sizeof h / sizeof h[0]; ++i) if(f == h[i]) return true;
        return false;
    }

    void execute(const Plan &p, Run &run)
    {
        char path[256]; snprintf(path, sizeof path, "%s/C14.vg.%d.plan", tmpDir().c_str(), (int)getpid());
        char epath[256]; snprintf(epath, sizeof epath, "%s/C14.vg.%d.err", tmpDir().c_str(), (int)getpid());
        writeFile(path, planToString(p, NULL));
        char self[4096]; ssize_t n = readlink("/proc/self/exe", self, sizeof self - 1); self[n > 0 ? n : 0] = 0;
        std::string cmd = std::string("valgrind -q --error-exitcode=0 --num-callers=8 --undef-value-errors=yes --leak-check=no --fullpath-after= ") + self + " --inter " + path + " 2>" + epath;
        FILE *pp = popen(cmd.c_str(), "r"); if(!pp) { run.fail("harness", "popen", "popen failed"); return; }
        char line[512]; bool ok = false; std::vector<uint64_t> marks;
        while(fgets(line, sizeof line, pp)) { if(line[0] == 'M') marks.push_back(strtoull(line + 2, NULL, 10)); else if(line[0] == 'S') run.simSeconds += atof(line + 2); else if(line[0] == 'E') ok = true; }
        int rc = pclose(pp); unlink(path);
        std::string err; readFile(epath, err); unlink(epath);
        if(!ok) { run.fail("valgrind-run-died", "core" + std::to_string(p.get("emu0", 0)), "status " + std::to_string(rc) + " " + err.substr(0, 300)); return; }
        run.count("valgrind_run");
        Hasher st; st.add((uint64_t)p.get("emu0", 0)); st.add((uint64_t)p.get("emu1", 0)); run.state(st.h);
        for(size_t k = 0; k < marks.size(); ++k) run.log.add(marks[k]);
        // ---- oracle: memcheck reports about undefined values
        std::map<std::string, std::string> found; size_t pos = 0;
        while((pos = err.find("uninitialised", pos)) != std::string::npos)
        {
            size_t ls = err.rfind('\n', pos); ls = ls == std::string::npos ? 0 : ls + 1; size_t le = err.find('\n', pos);
            std::string head = err.substr(ls, le == std::string::npos ? std::string::npos : le - ls); pos += 10;
            // the innermost frame: "==pid==    at 0x....: function (file.cpp:123)"
            size_t at = err.find("   at 0x", le == std::string::npos ? err.size() : le); if(at == std::string::npos) continue;
            size_t ae = err.find('\n', at); std::string fr = err.substr(at, ae == std::string::npos ? std::string::npos : ae - at);
            size_t colon = fr.find(": "); if(colon == std::string::npos) continue; std::string rest = fr.substr(colon + 2);
            size_t par = rest.rfind(" ("); std::string fn = par == std::string::npos ? rest : rest.substr(0, par), loc = par == std::string::npos ? "" : rest.substr(par + 2);
            if(loc.compare(0, 3, "in ") == 0) continue;                       // no source: libc / libstdc++ / valgrind's own
            std::string file = loc.substr(0, loc.find(':')); if(file.find("/src/") == std::string::npos || file.find("/verif/") != std::string::npos) continue;   // innermost frame must be a library source file (full paths)
            { size_t sl = file.rfind('/'); if(sl != std::string::npos) loc = loc.substr(sl + 1); }
            size_t pa = fn.find('('); if(pa != std::string::npos) fn = fn.substr(0, pa);
            size_t h2 = head.find("== "); if(h2 != std::string::npos) head = head.substr(h2 + 3);
            if(!found.count(fn)) found[fn] = head + " in " + fn + " (" + loc;
        }
        for(std::map<std::string, std::string>::iterator it = found.begin(); it != found.end(); ++it) { run.log.add(hashStr(it->first.c_str())); run.count("undefined_value_reports_from_library"); }
        if(!found.empty())
        {
            static std::vector<KnownFinding> known = loadKnownFindings("C14");
            std::map<std::string, std::string>::iterator pick = found.end();
            for(std::map<std::string, std::string>::iterator it = found.begin(); it != found.end(); ++it) { Violation v; v.set = true; v.tag = "uninitialised-value"; v.sig = it->first; if(!matchKnown(known, v)) { pick = it; break; } }
            if(pick == found.end()) pick = found.begin();
            if(const char *only = getenv("VERIF_ONLY_CLASS")) for(std::map<std::string, std::string>::iterator it = found.begin(); it != found.end(); ++it) if(("uninitialised-value|" + it->first).find(only) != std::string::npos) { pick = it; break; }
            std::string others; for(std::map<std::string, std::string>::iterator it = found.begin(); it != found.end(); ++it) if(it != pick) others += " [" + it->first + "]";
            run.fail("uninitialised-value", pick->first, "valgrind memcheck: " + pick->second + (others.empty() ? "" : "; also in this run:" + others));
        }
    }
};

int main(int argc, char **argv)
{
    if(argc > 2 && std::string(argv[1]) == "--inter")
    {
        std::string text; Plan plan; if(!readFile(argv[2], text) || !planFromString(text, plan)) return 2;
        SimFsScope fs; g_fs.reset(); opn2_set_vgm_out_path("kek.vgm");
        std::vector<TaskCtx> tasks((size_t)plan.get("tasks", 2));
        for(size_t t = 0; t < tasks.size(); ++t) { tasks[t].id = (int)t; mtSetupWorld(tasks[t], plan); }
        tapInstall(true);
        runInterleaved(plan, tasks, -1);
        for(size_t k = 0; k < tasks[0].marks.size(); ++k) __real_printf("M %llu\n", (unsigned long long)tasks[0].marks[k]);
        double sim = 0; for(size_t t = 0; t < tasks.size(); ++t) sim += tasks[t].run.simSeconds;
        __real_printf("S %.6f\n", sim); __real_printf("E\n"); fflush(stdout);
        for(size_t t = 0; t < tasks.size(); ++t) tasks[t].world.closeAll();
        return 0;
    }
    C14V c;
    return driverMain(c, argc, argv);
}
