// C08 — seeking equals playing up to the target, minus the sounding notes.
// Twin experiment on two instances with identical prior history (ticks, earlier seeks, possibly played to the
// end): A = opn2_positionRewind + tick-driven linear play to t; B = opn2_positionSeek(t). Targets t are drawn
// between event times (>= 1 ms away from any event), incl. t = 0, beyond the end and negative.
// Oracle: tell(B) == t; B has no users and no keyed-on channel; per MIDI channel the fields the property lists
// are equal in A and B; then both are ticked with the same slicing and deliver identical (event, call) logs;
// audio-driven continuation of B alone: every later event arrives inside the C07 window measured from t.
#include "../sim/seqmodel.hpp"
#include "../sim/snapshot.hpp"

extern "C" void opn2_set_vgm_out_path(const char *path);
using namespace sim;

enum { Q_TICK = 0, Q_SEEK, Q_TARGET, Q_POST, Q_COUNT };
static const char *qName(int k) { static const char *n[] = { "priorTick", "priorSeek", "target", "postAdvance" }; return k >= 0 && k < Q_COUNT ? n[k] : "?"; }

struct ChanFields { int patch, msb, lsb, volume, expression, pan, bend, bsm, bsl, sustain, soft, lrpn, mrpn, nrpn; double bendsense; };
static ChanFields fieldsOf(OPNMIDIplay *p, int ch)
{
    OPNMIDIplay::MIDIchannel &c = p->m_midiChannels[(size_t)ch]; ChanFields f;
    f.patch = c.patch; f.msb = c.bank_msb; f.lsb = c.bank_lsb; f.volume = c.volume; f.expression = c.expression; f.pan = c.panning; f.bend = c.bend;
    f.bsm = c.bendsense_msb; f.bsl = c.bendsense_lsb; f.sustain = c.sustain; f.soft = c.softPedal; f.lrpn = c.lastlrpn; f.mrpn = c.lastmrpn; f.nrpn = c.nrpn; f.bendsense = c.bendsense;
    return f;
}
static std::string diffFields(const ChanFields &a, const ChanFields &b)
{
    std::ostringstream o;
#define F(x) if(a.x != b.x) o << #x << " " << a.x << " vs " << b.x << "; ";
    F(patch) F(msb) F(lsb) F(volume) F(expression) F(pan) F(bend) F(bsm) F(bsl) F(sustain) F(soft) F(lrpn) F(mrpn) F(nrpn) F(bendsense)
#undef F
    return o.str();
}

class C08 : public Check
{
public:
    const char *id() { return "C08"; }
    const char *opName(int k) { return qName(k); }
    int quickRuns() { return 24000; }
    int quickSeconds() { return 90; }
    int thoroughSeconds() { return 900; }
    const char *rule()
    {
        return "each run = one controller-rich generated SMF, a seeded prior history applied to twin instances (ticks, earlier/backward seeks, play to end), a seek target between event times (or 0 / beyond end / negative), and a seeded post-seek slicing (tick twin or audio window); "
               "distinct = distinct (target class relative to tempo changes/song end, prior-history class, continuation mode, tempo multiplier) tuples";
    }
    std::vector<std::string> realComponents() { return { "BW_MidiSequencer::seek/rewind/processEvents(isSeek), opn2_positionSeek delay/carry hand-over, OPNMIDIplay controller state" }; }
    std::vector<std::string> stubComponents() { return { "chip output: VGM-dumper core for the audio continuation" }; }
    std::vector<std::string> requiredProbes() { return { "seek_across_tempo_change", "seek_beyond_end", "seek_negative", "seek_zero", "backward_seek", "repeated_seek", "prior_played_to_end", "audio_continuation", "notes_sounding_at_target" }; }

    void generate(Rng &r, Plan &p, bool thorough)
    {
        p.cfg["songseed"] = (int64_t)r.below(1u << 30);
        p.cfg["maxtracks"] = (int64_t)r.range(1, 4);
        p.cfg["maxev"] = thorough ? (int64_t)r.range(10, 70) : (int64_t)r.range(10, 40);
        p.cfg["rate"] = r.pick<int>({ 8000, 22050, 44100 });
        p.cfg["mult"] = r.chance(0.7) ? 2 : (int64_t)r.below(5);
        p.cfg["cont"] = r.chance(0.75) ? 0 : 1; // continuation: 0 tick twin, 1 audio window
        p.cfg["devices"] = (int64_t)r.chance(0.25);
        p.cfg["loop"] = (int64_t)r.chance(0.25);      // loopStart/loopEnd markers + looping on: targets stay before the loop end (the property's quantifier)
        p.cfg["longrows"] = (int64_t)r.chance(0.02);  // one track of > 10000 rows (every event at its own tick): a deep seek replays them all   // tracks bound to MIDI devices (meta FF 09): more than 16 MIDI channels
        int nprior = (int)r.weighted({ 4, 3, 2, 1 });
        for(int i = 0; i < nprior; ++i)
        {
            if(r.chance(0.5)) { Op o(Q_TICK); o.d = r.chance(0.15) ? 50.0 : r.real(0, 4.0); p.ops.push_back(o); }
            else { Op o(Q_SEEK); o.d = r.unit() * 1.1; p.ops.push_back(o); }
        }
        Op t(Q_TARGET); t.a[0] = (int64_t)r.weighted({ 80, 5, 6, 5 }); t.d = r.unit(); p.ops.push_back(t); // 0 inside, 1 zero, 2 beyond, 3 negative
        int npost = (int)r.range(5, thorough ? 80 : 40);
        for(int i = 0; i < npost; ++i) { Op o(Q_POST); o.a[0] = (int64_t)r.below(5); o.d = r.unit(); o.a[1] = (int64_t)r.below(1000); p.ops.push_back(o); }
    }

    void execute(const Plan &p, Run &run)
    {
        SimFsScope fs; g_fs.reset();
        opn2_set_vgm_out_path("kek.vgm");
        tapInstall(true);
        static const double mults[5] = { 0.25, 0.5, 1.0, 2.0, 4.0 };
        const double mult = mults[p.get("mult", 2) % 5];
        const long rate = (long)p.get("rate", 22050);
        const double g = 1.0 / (double)rate;
        Rng sr(mix64((uint64_t)p.get("songseed"), 0xC08));
        SongOpts so; so.maxTracks = (int)p.get("maxtracks", 2); so.maxEventsPerTrack = (int)p.get("maxev", 30); so.controllerRich = true; so.maxSeconds = 6.0; so.eotVariants = false;
        Song song = genSong(sr, so);
        if(p.get("longrows", 0))
        {
            // 10500..12000 controller events, each with its own tag and tick
            song = Song(); song.format = 0; song.division = 480; song.tracks.resize(1); STrack &lt = song.tracks[0];
            static const int ctl[10] = { 7, 10, 11, 1, 71, 74, 91, 93, 5, 65 };
            int n = (int)sr.range(10500, 12000); uint32_t tk = 0;
            for(int i = 0; i < n; ++i) { SEvent e; tk += (uint32_t)sr.range(1, 2); e.tick = tk; e.status = 0xB0; e.ch = (uint8_t)(i % 16); e.d1 = (uint8_t)ctl[(i / 16) % 10]; e.d2 = (uint8_t)((i / 160) % 128); e.id = i; lt.ev.push_back(e); }
            run.count("song_with_more_than_10000_rows");
        }
        if(p.get("devices", 0) && !p.get("longrows", 0)) { addDeviceMetas(song, sr); run.count("multi_device_song"); }
        // loop markers in track 0 (valid: start before end), looping on with 2 passes
        const bool looping = p.get("loop", 0) != 0 && !p.get("longrows", 0); uint32_t loopStartTick = 0, loopEndTick = 0; bool startOnly = false;
        if(looping)
        {
            uint32_t maxTick = 0; for(size_t tk2 = 0; tk2 < song.tracks.size(); ++tk2) if(!song.tracks[tk2].ev.empty()) maxTick = std::max(maxTick, song.tracks[tk2].ev.back().tick);
            if(maxTick >= 8)
            {
                loopStartTick = (uint32_t)sr.range(0, maxTick / 2); loopEndTick = (uint32_t)sr.range(loopStartTick + 2, maxTick);
                SEvent a; a.status = 0xFF; a.metaType = 0x06; a.tick = loopStartTick; const char *ls = "loopStart"; a.data.assign(ls, ls + 9); a.id = 200001;
                SEvent b = a; b.tick = loopEndTick; const char *le = "loopEnd"; b.data.assign(le, le + 7); b.id = 200002;
                // a third of the looping songs carry a loopStart marker only: the loop end is the end of the song (C09), every target inside the song is "before the loop end"
                // (derived from the drawn tick, not drawn: recorded plans of the other runs keep their meaning)
                startOnly = (loopStartTick % 3) == 0;
                STrack &t0 = song.tracks[0]; size_t pa = 0; while(pa < t0.ev.size() && t0.ev[pa].tick < a.tick) ++pa; t0.ev.insert(t0.ev.begin() + (long)pa, a);
                if(!startOnly) { size_t pb2 = 0; while(pb2 < t0.ev.size() && t0.ev[pb2].tick <= b.tick) ++pb2; t0.ev.insert(t0.ev.begin() + (long)pb2, b); }
                run.count(startOnly ? "song_with_loop_start_only" : "song_with_loop_points");
            }
        }
        for(size_t tk = 0; tk < song.tracks.size(); ++tk) { STrack &t = song.tracks[tk]; t.hasEOT = true; t.trailing.clear(); t.eotTick = (t.ev.empty() ? 0 : t.ev.back().tick) + (uint32_t)sr.range(0, song.division); }
        RefSong ref; ref.build(song);
        std::vector<uint8_t> smf = writeSmf(song, sr.chance(0.5));
        std::vector<uint8_t> bank = stdBankImage(1, 1, 1);
        OPN2_MIDIPlayer *dev[2]; RawRecorder rec[2];
        for(int k = 0; k < 2; ++k)
        {
            dev[k] = opn2_init(rate);
            opn2_openBankData(dev[k], bank.data(), (long)bank.size());
            opn2_switchEmulator(dev[k], (looping && loopEndTick) ? OPNMIDI_EMU_GENS : OPNMIDI_VGM_DUMPER);   // (the dumper core stops a song at its loop end by design)
            opn2_setRawEventHook(dev[k], RawRecorder::cb, &rec[k]);
            opn2_setLoopEnabled(dev[k], (looping && loopEndTick) ? 1 : 0); if(looping && loopEndTick) opn2_setLoopCount(dev[k], 2);
            if(opn2_openData(dev[k], smf.data(), (unsigned long)smf.size()) != 0) { run.fail("wellformed-smf-rejected", "load", opn2_errorInfo(dev[k])); opn2_close(dev[k]); if(k) opn2_close(dev[0]); tapInstall(false); return; }
            opn2_setTempo(dev[k], mult);
        }
        const double length = ref.length; // includes the 1 s tail
        // with looping on, every seek target stays before the loop end
        const double seekLimit = (looping && loopEndTick && !startOnly) ? ref.timing.secondsAt(loopEndTick) - 2e-3 : (length - 1.0);
        std::vector<double> times; for(size_t tk = 0; tk < ref.tracks.size(); ++tk) for(size_t i = 0; i < ref.tracks[tk].size(); ++i) times.push_back(ref.tracks[tk][i].time);
        std::sort(times.begin(), times.end());
        std::vector<double> tempoTimes; for(size_t i = 0; i < ref.tracks[0].size(); ++i) if(ref.tracks[0][i].kind == 0xFF && ref.tracks[0][i].metaType == 0x51) tempoTimes.push_back(ref.tracks[0][i].time);
        // move a wanted target away from event times (>= 1 ms)
        auto between = [&](double t) { for(int it = 0; it < 200; ++it) { bool ok = true; for(size_t i = 0; i < times.size(); ++i) if(std::fabs(times[i] - t) < 1e-3) { ok = false; break; } if(ok) return t; t += 1.3e-3; } return t; };
        int seeks = 0; double lastSeek = -1; bool backward = false, playedToEnd = false;
        size_t i = 0; int cls = 0; double target = 0; int tclass = 0;
        for(; i < p.ops.size() && !run.failed(); ++i)
        {
            const Op &o = p.ops[i];
            noteOp((int)i, o.kind);
            if(o.kind == Q_TICK) { for(int k = 0; k < 2; ++k) { double left = o.d; while(left > 0) { double s = left > 0.5 ? 0.5 : left; opn2_tickEvents(dev[k], s, g); left -= s; } } run.simSeconds += o.d; if(opn2_atEnd(dev[0])) playedToEnd = true; cls |= 1; }
            else if(o.kind == Q_SEEK) { double t = between((looping && loopEndTick) ? std::min(o.d, 0.97) * seekLimit : o.d * (length - 1.0)); if(looping && loopEndTick && t >= seekLimit) t = seekLimit * 0.5; for(int k = 0; k < 2; ++k) opn2_positionSeek(dev[k], t); if(lastSeek >= 0 && t < lastSeek) backward = true; lastSeek = t; ++seeks; cls |= 2; }
            else if(o.kind == Q_TARGET) { tclass = (int)o.a[0]; target = o.d; ++i; break; }
        }
        if(run.failed() || tclass < 0) { for(int k = 0; k < 2; ++k) opn2_close(dev[k]); tapInstall(false); return; }
        if(playedToEnd) { run.count("prior_played_to_end"); cls |= 4; }
        OPNMIDIplay *pa = Acc::P(dev[0]), *pb = Acc::P(dev[1]);
        double t;
        if(tclass == 1) { t = 0.0; run.count("seek_zero"); }
        else if(tclass == 2) { t = length + 0.5 + target; run.count("seek_beyond_end"); }
        else if(tclass == 3) { t = -0.001 - target; run.count("seek_negative"); }
        else { t = between(target * seekLimit); if(looping && loopEndTick && t >= seekLimit) { run.count("target_not_before_loop_end"); for(int k = 0; k < 2; ++k) opn2_close(dev[k]); tapInstall(false); return; } }
        // past the last delivery only the one-second tail remains: whether that still counts as "inside the song"
        // is not stated by the property (the sequencer treats it as the end and rewinds) -> not judged
        if(tclass == 0 && t >= (length - 1.0) - 1e-3) { run.count("target_in_tail_not_judged"); for(int k = 0; k < 2; ++k) { opn2_positionSeek(dev[k], t); opn2_close(dev[k]); } tapInstall(false); return; }
        if(tclass == 0) { for(size_t k = 0; k < tempoTimes.size(); ++k) if(tempoTimes[k] < t) { run.count("seek_across_tempo_change"); break; } }
        if(seeks > 0) run.count("repeated_seek");
        if(backward || (lastSeek > t && tclass == 0)) run.count("backward_seek");
        noteOp((int)i, Q_TARGET);
        if(tclass == 3)
        {
            // negative targets are ignored: position and state unchanged
            double tellBefore = opn2_positionTell(dev[1]); SimpleSnap sb = snapOf(pb);
            opn2_positionSeek(dev[1], t);
            if(opn2_positionTell(dev[1]) != tellBefore) run.fail("negative-seek-moved", "target", "negative seek changed the position from " + std::to_string(tellBefore) + " to " + std::to_string(opn2_positionTell(dev[1])));
            SimpleSnap sa = snapOf(pb);
            if(!(sa == sb)) run.fail("negative-seek-changed-state", "target", "negative seek changed controller/note state");
            for(int k = 0; k < 2; ++k) opn2_close(dev[k]); tapInstall(false); return;
        }
        // B seeks; A rewinds and plays linearly to t (beyond the end: A just rewinds)
        opn2_positionSeek(dev[1], t);
        opn2_positionRewind(dev[0]);
        double expectTell = t;
        if(tclass == 2) expectTell = 0.0;
        else
        {
            // seek works in song time: A must feed t of song time = t / mult real seconds
            double left = t / mult; Rng rr(mix64(p.seed, 0xA11));
            while(left > 1e-12) { double s = rr.chance(0.3) ? left : std::min(left, rr.real(0.0, 0.7)); opn2_tickEvents(dev[0], s, g); left -= s; }
            run.simSeconds += t;
        }
        double tellB = opn2_positionTell(dev[1]), tellA = opn2_positionTell(dev[0]);
        if(std::fabs(tellB - expectTell) > 1e-6 * (1 + expectTell)) run.fail("tell-after-seek", "class" + std::to_string(tclass), "sought " + std::to_string(t) + " (length " + std::to_string(length) + ") but opn2_positionTell reports " + std::to_string(tellB));
        (void)tellA;
        // no note sounding in B
        if(!run.failed())
        {
            std::vector<OPNMIDIplay::OpnChannel> &cc = Acc::chipChannels(pb);
            // (a drum hit struck less than 30 ms before the seek has been released by the seek's panic but rings out its minimum
            //  life time - isOnExtendedLifeTime - until the next tick: that is a released note, not a sounding one)
            for(size_t mc = 0; mc < pb->m_midiChannels.size() && !run.failed(); ++mc)
                for(OPNMIDIplay::MIDIchannel::notes_iterator ni = pb->m_midiChannels[mc].activenotes.begin(); !ni.is_end(); ++ni)
                    if(!ni->value.isOnExtendedLifeTime) { run.fail("note-sounding-after-seek", "class" + std::to_string(tclass), "MIDI channel " + std::to_string(mc) + " key " + std::to_string(ni->value.note) + " is still held right after the seek"); break; }
            for(size_t c = 0; c < cc.size() && !run.failed(); ++c)
                for(OPNMIDIplay::OpnChannel::users_iterator ui = cc[c].users.begin(); !ui.is_end(); ++ui)
                {
                    const OPNMIDIplay::OpnChannel::LocationData &u = ui->value; bool ringingOut = false;
                    if(u.loc.MidCh < pb->m_midiChannels.size()) { OPNMIDIplay::MIDIchannel::notes_iterator ni = pb->m_midiChannels[u.loc.MidCh].find_activenote(u.loc.note); if(!ni.is_end() && ni->value.isOnExtendedLifeTime) ringingOut = true; }
                    if(!ringingOut) { run.fail("note-sounding-after-seek", "class" + std::to_string(tclass), "chip channel " + std::to_string(c) + " has a user (MIDI channel " + std::to_string(u.loc.MidCh) + " key " + std::to_string(u.loc.note) + ") right after the seek"); break; }
                }
            size_t soundingA = 0; for(size_t mc = 0; mc < pa->m_midiChannels.size(); ++mc) soundingA += pa->m_midiChannels[mc].activenotes.size();
            if(soundingA) run.count("notes_sounding_at_target");
        }
        // controller state equality, on every MIDI channel the player has (16 per device)
        if(!run.failed() && pa->m_midiChannels.size() != pb->m_midiChannels.size()) run.fail("controller-state-after-seek", "class" + std::to_string(tclass), "the twins have " + std::to_string(pa->m_midiChannels.size()) + " and " + std::to_string(pb->m_midiChannels.size()) + " MIDI channels");
        for(size_t ch = 0; ch < pb->m_midiChannels.size() && !run.failed(); ++ch)
        {
            std::string d = diffFields(fieldsOf(pa, (int)ch), fieldsOf(pb, (int)ch));
            if(!d.empty()) run.fail("controller-state-after-seek", "class" + std::to_string(tclass), "MIDI channel " + std::to_string(ch) + " linear-play vs seek: " + d);
        }
        // ... and against an instance without any prior history that plays from the start to t: what the song start resets
        // (everything in the property's list; programs and banks are compared under their own tag) must not depend on what
        // the seeking instance had played before
        if(!run.failed() && tclass == 0)
        {
            OPN2_MIDIPlayer *fresh = opn2_init(rate);
            opn2_openBankData(fresh, bank.data(), (long)bank.size()); opn2_switchEmulator(fresh, (looping && loopEndTick) ? OPNMIDI_EMU_GENS : OPNMIDI_VGM_DUMPER); opn2_setLoopEnabled(fresh, (looping && loopEndTick) ? 1 : 0); if(looping && loopEndTick) opn2_setLoopCount(fresh, 2);
            if(opn2_openData(fresh, smf.data(), (unsigned long)smf.size()) == 0)
            {
                opn2_setTempo(fresh, mult);
                double left = t / mult; Rng rr(mix64(p.seed, 0xA11));
                while(left > 1e-12) { double s = rr.chance(0.3) ? left : std::min(left, rr.real(0.0, 0.7)); opn2_tickEvents(fresh, s, g); left -= s; }
                OPNMIDIplay *pf = Acc::P(fresh);
                for(size_t ch = 0; ch < pb->m_midiChannels.size() && !run.failed(); ++ch)
                {
                    ChanFields fb = fieldsOf(pb, (int)ch), ff; if(ch < pf->m_midiChannels.size()) ff = fieldsOf(pf, (int)ch); else continue;   // (a device the fresh run has not reached yet)
                    ChanFields fb2 = fb, ff2 = ff; fb2.patch = ff2.patch = 0; fb2.msb = ff2.msb = 0; fb2.lsb = ff2.lsb = 0;
                    std::string d = diffFields(ff2, fb2);
                    if(!d.empty()) { run.fail("state-after-seek-depends-on-prior-history", "controllers", "MIDI channel " + std::to_string(ch) + ": a fresh instance played to t vs the instance that sought there: " + d); break; }
                    if(fb.patch != ff.patch || fb.msb != ff.msb || fb.lsb != ff.lsb) { run.fail("state-after-seek-depends-on-prior-history", "program-or-bank", "MIDI channel " + std::to_string(ch) + ": program/bank " + std::to_string(ff.patch) + "/" + std::to_string(ff.msb) + ":" + std::to_string(ff.lsb) + " after playing from the start to t on a fresh instance, " + std::to_string(fb.patch) + "/" + std::to_string(fb.msb) + ":" + std::to_string(fb.lsb) + " after seeking there (kept from later in the song)"); break; }
                }
                run.count("fresh_instance_compared");
            }
            opn2_close(fresh);
        }
        // continuation
        const int cont = (looping && loopEndTick) ? 0 : (int)p.get("cont", 0);   // (the audio window oracle has no notion of repeated deliveries: looping runs use the twin continuation)
        if(!run.failed() && cont == 0)
        {
            rec[0].ev.clear(); rec[1].ev.clear(); int call = 0;
            double lastRet[2] = { 0, 0 };
            for(; i < p.ops.size() && !run.failed(); ++i)
            {
                const Op &o = p.ops[i]; if(o.kind != Q_POST) continue;
                noteOp((int)i, o.kind);
                double s;
                switch((int)o.a[0]) { default: case 0: s = 0.0005 + o.d * 0.02; break; case 1: s = o.d * 0.8; break; case 2: s = 0; break; case 3: s = g * (0.2 + o.d * 3); break; case 4: s = 1.5 * o.d; break; }
                for(int k = 0; k < 2; ++k) { rec[k].curCall = call; lastRet[k] = opn2_tickEvents(dev[k], s, g); }
                ++call; run.simSeconds += s;
                if(std::fabs(lastRet[0] - lastRet[1]) > 1e-6 * (1 + lastRet[0])) run.fail("returned-delay-differs", "continuation", "after the same slice linear-play returns next delay " + std::to_string(lastRet[0]) + " but the sought instance " + std::to_string(lastRet[1]));
            }
            // drain both to the end with identical slices
            for(int n = 0; n < 4000 && !run.failed() && !(opn2_atEnd(dev[0]) && opn2_atEnd(dev[1])); ++n) { for(int k = 0; k < 2; ++k) { rec[k].curCall = call; opn2_tickEvents(dev[k], 0.05, g); } ++call; }
            if(!run.failed())
            {
                std::vector<std::pair<uint64_t, int> > la, lb;
                for(int k = 0; k < 2; ++k) for(size_t e = 0; e < rec[k].ev.size(); ++e) { if(RawRecorder::isSongBeginArtifact(rec[k].ev[e])) continue; (k ? lb : la).push_back(std::make_pair(rec[k].ev[e].key(), rec[k].ev[e].call)); }
                if(la != lb)
                {
                    size_t d = 0; while(d < la.size() && d < lb.size() && la[d] == lb[d]) ++d;
                    run.fail("events-after-seek-differ", "class" + std::to_string(tclass), "after t=" + std::to_string(t) + " linear play delivers " + std::to_string(la.size()) + " events, seek " + std::to_string(lb.size()) + "; first difference at #" + std::to_string(d) +
                             (d < la.size() ? " (linear: call " + std::to_string(la[d].second) + ")" : "") + (d < lb.size() ? " (seek: call " + std::to_string(lb[d].second) + ")" : ""));
                }
                run.log.add(la.size());
                if(getenv("VERIF_DEBUG")) fprintf(stderr, "DEBUG looping %d ls %u le %u t %.4f seekLimit %.4f events A %zu B %zu atEnd %d %d loopStartTime %.4f loopEndTime %.4f\n", (int)looping, loopStartTick, loopEndTick, t, seekLimit, la.size(), lb.size(), opn2_atEnd(dev[0]), opn2_atEnd(dev[1]), opn2_loopStartTime(dev[0]), opn2_loopEndTime(dev[0]));
                if(looping && loopEndTick) { std::map<uint64_t, int> seen; int maxc = 0; for(size_t e = 0; e < la.size(); ++e) maxc = std::max(maxc, ++seen[la[e].first]); if(maxc >= 2) run.count("continuation_crossed_the_loop_end"); }
            }
        }
        else if(!run.failed() && tclass != 2)
        {
            // audio continuation of the sought instance: C07 window measured from t
            run.count("audio_continuation");
            rec[1].ev.clear(); long frames = 0; int call = 0; std::vector<std::pair<long, long> > span;
            std::map<uint64_t, double> timeOf; for(size_t tk = 0; tk < ref.tracks.size(); ++tk) for(size_t e = 0; e < ref.tracks[tk].size(); ++e) if(!ref.tracks[tk][e].isEOT) timeOf[ref.tracks[tk][e].key] = ref.tracks[tk][e].time;
            for(int n = 0; n < 6000 && !opn2_atEnd(dev[1]); ++n)
            {
                int64_t aux = (i < p.ops.size()) ? p.ops[std::min(i + (size_t)(n % 30), p.ops.size() - 1)].a[1] : 7;
                long want = (n % 3 == 0) ? 1 : (long)(1 + aux % 700);
                std::vector<short> buf((size_t)want * 2);
                rec[1].curCall = call; int got = opn2_play(dev[1], (int)want * 2, buf.data());
                span.push_back(std::make_pair(frames, frames + got / 2)); frames += got / 2; ++call;
                if(got == 0 && !opn2_atEnd(dev[1]) && n > 5990) break;
            }
            run.simSeconds += (double)frames / (double)rate;
            for(size_t e = 0; e < rec[1].ev.size() && !run.failed(); ++e)
            {
                const RawEvt &ev = rec[1].ev[e]; std::map<uint64_t, double>::iterator it = timeOf.find(ev.key()); if(it == timeOf.end()) continue;
                double due = (it->second - t) / mult * (double)rate; // frames after the seek
                if(it->second < t) { run.fail("past-event-after-seek", "audio", "event with song time " + std::to_string(it->second) + " delivered after seeking to " + std::to_string(t)); break; }
                if((double)span[(size_t)ev.call].first > due + 2) run.fail("event-late-after-seek", "audio", "event due " + std::to_string(due) + " frames after the seek delivered in a call starting at frame " + std::to_string(span[(size_t)ev.call].first));
                if((double)span[(size_t)ev.call].second < due - 512 - 2) run.fail("event-early-after-seek", "audio", "event due " + std::to_string(due) + " frames after the seek delivered in a call ending at frame " + std::to_string(span[(size_t)ev.call].second));
            }
        }
        Hasher h; h.add((uint64_t)tclass); h.add((uint64_t)cls); h.add((uint64_t)cont); h.add((uint64_t)p.get("mult", 2));
        int tc = 0; for(size_t k = 0; k < tempoTimes.size(); ++k) if(tempoTimes[k] < t) ++tc; h.add(tc > 2 ? 2 : tc); h.add(seeks > 1 ? 2 : seeks);
        run.state(h.h);
        for(int k = 0; k < 2; ++k) opn2_close(dev[k]);
        tapInstall(false);
    }

    struct SimpleSnap { std::vector<uint8_t> b; bool operator==(const SimpleSnap &o) const { return b == o.b; } };
    static SimpleSnap snapOf(OPNMIDIplay *p)
    {
        SimpleSnap s;
        for(int ch = 0; ch < 16; ++ch) { ChanFields f = fieldsOf(p, ch); const uint8_t *q = (const uint8_t *)&f; s.b.insert(s.b.end(), q, q + sizeof f); s.b.push_back((uint8_t)p->m_midiChannels[(size_t)ch].activenotes.size()); }
        return s;
    }
};

int main(int argc, char **argv)
{
    C08 c;
    return driverMain(c, argc, argv);
}
