// C16 — the bank API behaves as a map (percussive, MSB, LSB) -> 128 instruments.
// Workload: op sequences over opn2_reserveBanks, opn2_getBank (lookup, Create, CreateRt), opn2_getBankId,
// opn2_removeBank, full opn2_getFirstBank/opn2_getNextBank traversals, opn2_getInstrument/setInstrument and
// opn2_openBankData (clears and refills the map); keys biased to collide in the 256 hash buckets (only LSB and
// bit 0 of MSB take part in the hash) and to a 6-key universe for dense slot reuse; growth past the reserved
// capacity; handles are tracked by the model and only live ones are used.
// Oracle: RefBankMap = std::map<key, 128 instruments> + the capacity the library reports; allocation hook for
// "real-time creation never allocates".
#include "../sim/apiops.hpp"
#include <sanitizer/allocator_interface.h>

using namespace sim;

enum { M_RESERVE = 0, M_LOOKUP, M_CREATE, M_CREATE_RT, M_GET_ID, M_REMOVE, M_TRAVERSE, M_GET_INS, M_SET_INS, M_LOAD_BANK, M_COUNT };
static const char *mName(int k) { static const char *n[] = { "reserveBanks", "getBank", "getBankCreate", "getBankCreateRt", "getBankId", "removeBank", "traverse", "getInstrument", "setInstrument", "openBankData" }; return k >= 0 && k < M_COUNT ? n[k] : "?"; }

static volatile uint64_t g_allocCount = 0;
static void onMalloc(const volatile void *, size_t) { ++g_allocCount; }
static void onFree(const volatile void *) {}

struct MIns2 { OPN2_Instrument v; };
static bool insEqual(const OPN2_Instrument &a, const OPN2_Instrument &b, std::string &why)
{
    if(a.note_offset != b.note_offset) { why = "note_offset"; return false; }
    if(a.midi_velocity_offset != b.midi_velocity_offset) { why = "midi_velocity_offset"; return false; }
    if(a.percussion_key_number != b.percussion_key_number) { why = "percussion_key_number"; return false; }
    if(a.inst_flags != b.inst_flags) { why = "inst_flags"; return false; }
    if(a.fbalg != b.fbalg || a.lfosens != b.lfosens) { why = "fbalg/lfosens"; return false; }
    if(memcmp(a.operators, b.operators, sizeof a.operators)) { why = "operators"; return false; }
    if(a.delay_on_ms != b.delay_on_ms || a.delay_off_ms != b.delay_off_ms) { why = "delays"; return false; }
    return true;
}

class C16 : public Check
{
public:
    const char *id() { return "C16"; }
    const char *opName(int k) { return mName(k); }
    int quickRuns() { return 50000; }
    int quickSeconds() { return 90; }
    int thoroughSeconds() { return 900; }
    const char *rule()
    {
        return "each run = seeded sequence of 20..300 bank-API calls over a small, bucket-colliding key universe (or the wide key space), incl. growth past reserved capacity, slot reuse after removal, bank-file loads; model = std::map + reported capacity, compared after every call; "
               "distinct = distinct (size, capacity, longest bucket chain, #live handles) tuples";
    }
    std::vector<std::string> realComponents() { return { "BasicBankMap (hash buckets, slot slabs, free list, iterators as handles), opn2_* bank API, OPNMIDIplay::LoadBank refill" }; }
    std::vector<std::string> stubComponents() { return { "none" }; }
    std::vector<std::string> requiredProbes() { return { "createRt_refused_full", "createRt_ok_no_alloc", "growth_past_capacity", "slot_reused_after_remove", "erase_chain_head", "erase_chain_inner", "bucket_chain_ge3", "load_refills_map", "handle_used_after_growth" }; }
    std::vector<std::string> assumptions() { return { "only live handles are used (a handle dies when its bank is removed or a bank file is loaded)" }; }

    void generate(Rng &r, Plan &p, bool thorough)
    {
        p.cfg["universe"] = r.chance(0.7) ? 0 : 1; // 0: six colliding keys, 1: wide
        p.cfg["bankseed"] = (int64_t)r.below(1000);
        int len = (int)(r.chance(0.7) ? r.range(20, 120) : r.range(120, thorough ? 300 : 200));
        for(int i = 0; i < len; ++i)
        {
            Op o; o.kind = (int)r.weighted({ 4, 14, 16, 12, 8, 12, 8, 10, 12, 2 });
            o.a[0] = (int64_t)r.below(1u << 20);    // key selector
            o.a[1] = (int64_t)r.below(128);         // instrument index
            o.a[2] = (int64_t)r.below(1u << 30);    // instrument seed
            o.a[3] = (int64_t)r.pick<int>({ 0, 1, 2, 3, 4, 5, 6, 8, 9, 12, 40 }); // reserve request
            p.ops.push_back(o);
        }
    }

    static OPN2_BankId keyOf(int universe, uint64_t sel)
    {
        OPN2_BankId id;
        if(universe == 0)
        {
            // six keys, five of them in one hash bucket (same LSB, MSB differs in bits 1..6 or in the percussion bit)
            static const uint8_t k[6][3] = { { 0, 0, 0 }, { 0, 2, 0 }, { 0, 64, 0 }, { 1, 0, 0 }, { 1, 2, 0 }, { 0, 1, 5 } };
            int i = (int)(sel % 6); id.percussive = k[i][0]; id.msb = k[i][1]; id.lsb = k[i][2];
        }
        else { id.percussive = (OPN2_UInt8)(sel & 1); id.msb = (OPN2_UInt8)((sel >> 1) % (sel & 4 ? 128 : 6)); id.lsb = (OPN2_UInt8)((sel >> 9) % (sel & 8 ? 128 : 3)); }
        return id;
    }
    static uint32_t k32(const OPN2_BankId &id) { return ((uint32_t)id.percussive << 16) | ((uint32_t)id.msb << 8) | id.lsb; }

    void execute(const Plan &p, Run &run)
    {
        SimFsScope fs; g_fs.reset();
        __sanitizer_install_malloc_and_free_hooks(onMalloc, onFree);
        const int universe = (int)p.get("universe", 0);
        OPN2_MIDIPlayer *dev = opn2_init(44100);
        OPNMIDIplay *pl = Acc::P(dev);
        typedef std::map<uint32_t, std::vector<OPN2_Instrument> > Ref;
        Ref ref; std::map<uint32_t, OPN2_Bank> handle; // live handles by key
        int lastCap = opn2_reserveBanks(dev, 0);
        std::set<const void *> slotsEverFreed;
        OPN2_Instrument blank; memset(&blank, 0, sizeof blank); blank.inst_flags = OPNMIDI_Ins_IsBlank;
        for(size_t i = 0; i < p.ops.size() && !run.failed(); ++i)
        {
            const Op &o = p.ops[i];
            noteOp((int)i, o.kind);
            OPN2_BankId id = keyOf(universe, (uint64_t)o.a[0]); uint32_t key = k32(id);
            // pick a live handle for handle ops
            std::map<uint32_t, OPN2_Bank>::iterator hit = handle.end();
            if(!handle.empty()) { hit = handle.begin(); std::advance(hit, (long)((uint64_t)o.a[0] % handle.size())); }
            switch(o.kind)
            {
            case M_RESERVE:
            {
                int cap = opn2_reserveBanks(dev, (unsigned)o.a[3]);
                if(cap < (int)o.a[3]) { run.fail("reserve-too-small", mName(o.kind), "opn2_reserveBanks(" + std::to_string(o.a[3]) + ") returned capacity " + std::to_string(cap)); break; }
                if(cap < lastCap) { run.fail("capacity-shrank", mName(o.kind), "capacity went from " + std::to_string(lastCap) + " to " + std::to_string(cap)); break; }
                lastCap = cap; break;
            }
            case M_LOOKUP:
            {
                OPN2_Bank b; int rc = opn2_getBank(dev, &id, 0, &b);
                bool present = ref.count(key) != 0;
                if((rc == 0) != present) { run.fail(present ? "present-bank-not-found" : "absent-bank-found", mName(o.kind), "key " + std::to_string(key) + (present ? " was created/loaded and not removed but lookup fails" : " was never created (or was removed) but lookup succeeds")); break; }
                if(rc == 0) handle[key] = b;
                break;
            }
            case M_CREATE: case M_CREATE_RT:
            {
                int cap = opn2_reserveBanks(dev, 0); bool present = ref.count(key) != 0; size_t size = ref.size();
                OPN2_Bank b; uint64_t a0 = g_allocCount;
                int rc = opn2_getBank(dev, &id, o.kind == M_CREATE ? OPNMIDI_Bank_Create : OPNMIDI_Bank_CreateRt, &b);
                uint64_t allocs = g_allocCount - a0;
                if(o.kind == M_CREATE_RT)
                {
                    if(allocs != 0) { run.fail("realtime-create-allocated", mName(o.kind), "OPNMIDI_Bank_CreateRt performed " + std::to_string(allocs) + " allocation(s) (size " + std::to_string(size) + ", capacity " + std::to_string(cap) + ")"); break; }
                    bool mustFail = !present && (int)size >= cap;
                    if(mustFail && rc == 0) { run.fail("realtime-create-beyond-capacity", mName(o.kind), "capacity " + std::to_string(cap) + " exhausted but CreateRt succeeded"); break; }
                    if(!mustFail && rc != 0) { run.fail("realtime-create-refused-with-room", mName(o.kind), "size " + std::to_string(size) + " < capacity " + std::to_string(cap) + " (or key present) but CreateRt failed"); break; }
                    run.count(rc == 0 ? "createRt_ok_no_alloc" : "createRt_refused_full");
                }
                else
                {
                    if(rc != 0) { run.fail("create-failed", mName(o.kind), "opn2_getBank(Create) returned " + std::to_string(rc)); break; }
                    if(!present && (int)size >= cap) run.count("growth_past_capacity");
                }
                if(rc == 0)
                {
                    if(!present)
                    {
                        ref[key] = std::vector<OPN2_Instrument>(128, blank);
                        if(slotsEverFreed.count(b.pointer[1])) run.count("slot_reused_after_remove");
                        // a new bank reads as 128 blank instruments
                        for(unsigned q = 0; q < 128; q += 9) { OPN2_Instrument gi; memset(&gi, 0xEE, sizeof gi); opn2_getInstrument(dev, &b, q, &gi); if(!(gi.inst_flags & OPNMIDI_Ins_IsBlank)) { run.fail("new-bank-not-blank", mName(o.kind), "instrument " + std::to_string(q) + " of a newly created bank is not flagged blank"); break; } }
                    }
                    handle[key] = b;
                    if(!present && lastCap && opn2_reserveBanks(dev, 0) > lastCap && handle.size() > 1) run.count("handle_used_after_growth");
                    lastCap = opn2_reserveBanks(dev, 0);
                }
                break;
            }
            case M_GET_ID:
            {
                if(hit == handle.end()) break;
                OPN2_BankId got; memset(&got, 0xEE, sizeof got);
                if(opn2_getBankId(dev, &hit->second, &got) != 0) { run.fail("getBankId-failed", mName(o.kind), ""); break; }
                if(k32(got) != hit->first) { run.fail("bank-id-mismatch", mName(o.kind), "handle created for key " + std::to_string(hit->first) + " reports key " + std::to_string(k32(got))); break; }
                break;
            }
            case M_REMOVE:
            {
                if(hit == handle.end()) break;
                // chain position of the victim, for the reach probes
                {
                    OPN2::BankMap::iterator it = OPN2::BankMap::iterator::from_ptrs(hit->second.pointer);
                    (void)it;
                    struct SlotView { SlotView *next, *prev; }; SlotView *sv = (SlotView *)hit->second.pointer[1];
                    if(sv->prev == NULL && sv->next != NULL) run.count("erase_chain_head"); else if(sv->prev != NULL) run.count("erase_chain_inner");
                }
                slotsEverFreed.insert(hit->second.pointer[1]);
                int rc = opn2_removeBank(dev, &hit->second);
                if(rc != 0) { run.fail("remove-failed", mName(o.kind), "removing live bank " + std::to_string(hit->first) + " returned " + std::to_string(rc)); break; }
                ref.erase(hit->first); handle.erase(hit);
                break;
            }
            case M_TRAVERSE:
            {
                std::map<uint32_t, int> seen; OPN2_Bank b; int n = 0;
                if(opn2_getFirstBank(dev, &b) == 0)
                {
                    do
                    {
                        OPN2_BankId got; opn2_getBankId(dev, &b, &got); seen[k32(got)]++;
                        if(++n > 70000) { run.fail("traversal-does-not-end", mName(o.kind), "more than 70000 steps"); break; }
                    } while(opn2_getNextBank(dev, &b) == 0);
                }
                if(run.failed()) break;
                for(std::map<uint32_t, int>::iterator it = seen.begin(); it != seen.end() && !run.failed(); ++it)
                {
                    if(it->second > 1) run.fail("traversal-visits-twice", mName(o.kind), "bank " + std::to_string(it->first) + " visited " + std::to_string(it->second) + " times");
                    else if(!ref.count(it->first)) run.fail("traversal-visits-absent", mName(o.kind), "bank " + std::to_string(it->first) + " visited but not present in the model");
                }
                for(Ref::iterator it = ref.begin(); it != ref.end() && !run.failed(); ++it) if(!seen.count(it->first)) run.fail("traversal-misses-bank", mName(o.kind), "bank " + std::to_string(it->first) + " is present but iteration skipped it (" + std::to_string(seen.size()) + " of " + std::to_string(ref.size()) + " visited)");
                break;
            }
            case M_GET_INS:
            {
                if(hit == handle.end()) break;
                unsigned q = (unsigned)o.a[1]; OPN2_Instrument gi; memset(&gi, 0xEE, sizeof gi);
                if(opn2_getInstrument(dev, &hit->second, q, &gi) != 0) { run.fail("getInstrument-failed", mName(o.kind), ""); break; }
                std::string why;
                if(gi.version != 0) { run.fail("instrument-read-back", "version", "version field " + std::to_string(gi.version)); break; }
                if(!insEqual(gi, ref[hit->first][q], why)) { run.fail("instrument-read-back", why, "bank " + std::to_string(hit->first) + " instrument " + std::to_string(q) + ": " + why + " differs from the value last written"); break; }
                break;
            }
            case M_SET_INS:
            {
                if(hit == handle.end()) break;
                unsigned q = (unsigned)o.a[1]; OPN2_Instrument ins = insFromSeed((uint64_t)o.a[2], true);
                if(opn2_setInstrument(dev, &hit->second, q, &ins) != 0) { run.fail("setInstrument-failed", mName(o.kind), ""); break; }
                ins.version = 0; ref[hit->first][q] = ins;
                break;
            }
            case M_LOAD_BANK:
            {
                Rng br(mix64((uint64_t)p.get("bankseed") + i, 0xBA4C)); BankGenOpts bo; bo.nMel = (int)br.range(1, 3); bo.nPerc = (int)br.range(1, 3); bo.blankProb = 0.2;
                GenWopn gw = genWopn(br, bo);
                for(int s = 0; s < 2; ++s) { std::vector<GenBank> &bs = s ? gw.perc : gw.mel; for(size_t j = 0; j < bs.size(); ++j) { bs[j].msb &= 127; bs[j].lsb &= 127; } }
                std::vector<uint8_t> img = writeWopn(gw);
                // a third of the loads hand in a damaged image (cut short, or a broken magic): a load that reports failure created and loaded nothing, so the
                // map - and every handle into it - must be what it was ("present exactly if created or loaded and not since removed")
                Rng bf(mix64((uint64_t)p.get("bankseed") + i, 0xFA11));
                if(bf.chance(0.34))
                {
                    std::vector<uint8_t> bad = img;
                    if(bf.chance(0.7)) bad.resize((size_t)bf.range(0, (int64_t)img.size() - 1)); else bad[(size_t)bf.range(0, 9)] ^= 0x55;
                    if(opn2_openBankData(dev, bad.data(), (long)bad.size()) != 0)
                    {
                        run.count("rejected_load_leaves_map");
                        std::map<uint32_t, int> seen; OPN2_Bank b; int n = 0;
                        if(opn2_getFirstBank(dev, &b) == 0) { do { OPN2_BankId got; opn2_getBankId(dev, &b, &got); seen[k32(got)]++; if(++n > 70000) break; } while(opn2_getNextBank(dev, &b) == 0); }
                        if(seen.size() != ref.size()) run.fail("rejected-load-changed-map", mName(o.kind), "after a bank load that reported failure iteration visits " + std::to_string(seen.size()) + " banks, the map held " + std::to_string(ref.size()));
                        for(Ref::iterator it = ref.begin(); it != ref.end() && !run.failed(); ++it) if(!seen.count(it->first)) run.fail("rejected-load-changed-map", mName(o.kind), "bank " + std::to_string(it->first) + " is gone after a bank load that reported failure");
                        break;
                    }
                    // (an image that is still accepted, e.g. a flipped version byte, is not this property's business: load the intact one on top)
                }
                if(opn2_openBankData(dev, img.data(), (long)img.size()) != 0) { run.fail("valid-bank-rejected", mName(o.kind), opn2_errorInfo(dev)); break; }
                ref.clear(); handle.clear();
                for(int s = 0; s < 2; ++s)
                {
                    std::vector<GenBank> &bs = s ? gw.perc : gw.mel;
                    for(size_t j = 0; j < bs.size(); ++j)
                    {
                        std::vector<OPN2_Instrument> v(128);
                        for(int q = 0; q < 128; ++q)
                        {
                            const GenIns &g = bs[j].ins[q]; OPN2_Instrument x; memset(&x, 0, sizeof x);
                            x.note_offset = g.noteOffset; x.percussion_key_number = g.percKey; x.inst_flags = g.blank ? OPNMIDI_Ins_IsBlank : 0; x.fbalg = g.fbalg; x.lfosens = g.lfosens;
                            for(int l = 0; l < 4; ++l) memcpy(&x.operators[l], g.ops[l], 7);
                            x.delay_on_ms = g.blank ? 0 : g.delayOn; x.delay_off_ms = g.blank ? 0 : g.delayOff;
                            v[(size_t)q] = x;
                        }
                        ref[((uint32_t)s << 16) | ((uint32_t)bs[j].msb << 8) | bs[j].lsb] = v; // a later bank with the same key replaces the earlier one
                    }
                }
                run.count("load_refills_map");
                lastCap = opn2_reserveBanks(dev, 0);
                break;
            }
            }
            if(run.failed()) break;
            // size agreement after every op
            size_t implSize = pl->m_synth->m_insBanks.size();
            if(implSize != ref.size()) { run.fail("size-mismatch", mName(o.kind), "map holds " + std::to_string(implSize) + " banks, model " + std::to_string(ref.size())); break; }
            // reach: chain lengths
            size_t longest = 0; { std::map<size_t, size_t> chain; for(Ref::iterator it = ref.begin(); it != ref.end(); ++it) { uint32_t k = it->first; size_t idn = ((k >> 8) & 0xFF) << 8 | (k & 0xFF) | ((k >> 16) ? 0x8000u : 0); size_t h = ((idn & 127) | ((idn >> 8) << 7)) & 255; size_t c = ++chain[h]; if(c > longest) longest = c; } }
            if(longest >= 3) run.count("bucket_chain_ge3");
            Hasher h; h.add(ref.size() > 12 ? 12 : ref.size()); h.add((uint64_t)lastCap > 16 ? 16 : (uint64_t)lastCap); h.add(longest); h.add(handle.size() > 6 ? 6 : handle.size());
            run.state(h.h); run.log.add(h.h);
        }
        opn2_close(dev);
        __sanitizer_install_malloc_and_free_hooks(NULL, NULL);
    }
};

int main(int argc, char **argv)
{
    C16 c;
    return driverMain(c, argc, argv);
}
