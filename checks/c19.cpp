// C19 — only well-formed, correctly addressed SysEx messages take effect.
// SysEx messages are treated as packets on a lossy link: the five recognised messages are generated
// correctly for the current device id and then corrupted in transit (bit/byte flips, truncation, extension,
// wrong device id, wrong checksum, missing F0/F7, duplication, concatenation), plus random strings <= 64
// bytes; delivered via opn2_rt_systemExclusive and via SysEx events inside a playing SMF; prior states:
// every mode, random controller state, sounding and pedal-held notes, device ids 0..15.
// Oracle: RefSysEx (written from the message definitions, not from realTime_SysEx) decides acceptance.
#include "../sim/snapshot.hpp"
#include "../sim/songgen.hpp"

using namespace sim;

enum { S_SYSEX = 0, S_NOTE_ON, S_NOTE_OFF, S_CC, S_PATCH, S_BEND, S_SET_DEVICE, S_TICK, S_SYSEX_SMF, S_COUNT };
static const char *sName(int k)
{
    static const char *n[] = { "sysex", "noteOn", "noteOff", "cc", "patchChange", "pitchBend", "setDeviceIdentifier", "tickEvents", "sysexViaSmf" };
    return k >= 0 && k < S_COUNT ? n[k] : "?";
}

enum SxVerdict { SX_REJECT = 0, SX_ACCEPT = 1, SX_UNSPECIFIED = 2 };
enum SxEffect { FX_NONE = 0, FX_GM_ON, FX_GM_OFF, FX_MASTER_VOLUME, FX_GS_RESET, FX_GS_DRUM, FX_XG_ON };

struct SxDecision { SxVerdict verdict; SxEffect effect; int arg0, arg1; };

// The reference: acceptance per the property's definition.
static SxDecision refSysEx(const std::vector<uint8_t> &m, unsigned deviceId)
{
    SxDecision d; d.verdict = SX_REJECT; d.effect = FX_NONE; d.arg0 = d.arg1 = 0;
    size_t n = m.size();
    if(n < 2 || m[0] != 0xF0 || m[n - 1] != 0xF7) return d;              // framing
    bool highBit = false;
    for(size_t i = 1; i + 1 < n; ++i) if(m[i] & 0x80) highBit = true;    // data bytes must be 7-bit
    if(n < 4) return d;
    unsigned man = m[1], dev = m[2];
    if(man == 0x7E || man == 0x7F)
    {
        bool addressed = (dev == 0x7F) || (dev == deviceId);
        if(!addressed) return d;
        if(man == 0x7E && n == 6 && m[3] == 0x09 && (m[4] == 0x01 || m[4] == 0x02)) { d.verdict = SX_ACCEPT; d.effect = m[4] == 1 ? FX_GM_ON : FX_GM_OFF; }
        else if(man == 0x7F && n == 8 && m[3] == 0x04 && m[4] == 0x01) { d.verdict = SX_ACCEPT; d.effect = FX_MASTER_VOLUME; d.arg0 = m[6] & 0x7F; }
        if(highBit && d.verdict == SX_ACCEPT) d.verdict = SX_UNSPECIFIED;
        // a high-bit byte that, once masked, would turn a non-message into a message: unspecified as well
        if(highBit && d.verdict == SX_REJECT)
        {
            std::vector<uint8_t> mm = m; for(size_t i = 3; i + 1 < n; ++i) mm[i] &= 0x7F;
            SxDecision dm = refSysEx(mm, deviceId);
            if(dm.verdict != SX_REJECT) { d = dm; d.verdict = SX_UNSPECIFIED; }
        }
        return d;
    }
    if(man == 0x41 || man == 0x43)
    {
        // Roland / Yamaha: device byte is 0x1n with n = device id; 0x7F (broadcast) is left unspecified:
        // the property names "the broadcast id" but neither message set defines it in the 0x1n form
        bool unit = ((dev & 0xF0) == 0x10) && ((dev & 0x0F) == deviceId);
        bool bcast = (dev == 0x7F);
        if(!unit && !bcast) return d;
        SxDecision r = d;
        if(man == 0x41 && n == 11 && (m[3] & 0x7F) == 0x42 && (m[4] & 0x7F) == 0x12)
        {
            unsigned sum = 0; for(size_t i = 5; i <= 8; ++i) sum += m[i] & 0x7F;
            bool ck = (((128 - (sum & 127)) & 127) == (unsigned)(m[9] & 0x7F));
            unsigned a0 = m[5] & 0x7F, a1 = m[6] & 0x7F, a2 = m[7] & 0x7F;
            if(ck && a0 == 0x40 && a1 == 0x00 && a2 == 0x7F) { r.verdict = SX_ACCEPT; r.effect = FX_GS_RESET; }
            else if(ck && a0 == 0x00 && a1 == 0x00 && a2 == 0x7F) { r.verdict = SX_ACCEPT; r.effect = FX_GS_RESET; }
            else if(ck && a0 == 0x40 && (a1 & 0xF0) == 0x10 && a2 == 0x15) { r.verdict = SX_ACCEPT; r.effect = FX_GS_DRUM; r.arg0 = a1 & 0x0F; r.arg1 = m[8] & 0x7F; }
        }
        else if(man == 0x43 && n == 9 && (m[3] & 0x7F) == 0x4C && (m[4] & 0x7F) == 0 && (m[5] & 0x7F) == 0 && (m[6] & 0x7F) == 0x7E)
        { r.verdict = SX_ACCEPT; r.effect = FX_XG_ON; }
        if(r.verdict == SX_ACCEPT && (bcast || highBit)) r.verdict = SX_UNSPECIFIED;
        return r;
    }
    return d;
}

struct SxSnap
{
    uint32_t mode; uint8_t master;
    std::vector<uint8_t> chan;
    std::vector<uint32_t> notes;
    std::vector<std::vector<uint32_t> > users;
    bool operator==(const SxSnap &o) const { return mode == o.mode && master == o.master && chan == o.chan && notes == o.notes && users == o.users; }
};
template<class T> static void putv(std::vector<uint8_t> &v, const T &x) { const uint8_t *p = (const uint8_t *)&x; v.insert(v.end(), p, p + sizeof(T)); }

static SxSnap takeSnap(OPN2_MIDIPlayer *dev)
{
    OPNMIDIplay *p = Acc::P(dev); SxSnap s;
    s.mode = p->m_synthMode; s.master = p->m_synth->m_masterVolume;
    for(size_t c = 0; c < p->m_midiChannels.size(); ++c)
    {
        OPNMIDIplay::MIDIchannel &ch = p->m_midiChannels[c];
        putv(s.chan, ch.bank_lsb); putv(s.chan, ch.bank_msb); putv(s.chan, ch.patch); putv(s.chan, ch.volume); putv(s.chan, ch.expression); putv(s.chan, ch.panning);
        putv(s.chan, ch.vibrato); putv(s.chan, ch.aftertouch); putv(s.chan, ch.portamento); putv(s.chan, ch.sustain); putv(s.chan, ch.softPedal); putv(s.chan, ch.portamentoEnable);
        putv(s.chan, ch.portamentoSource); putv(s.chan, ch.bend); putv(s.chan, ch.bendsense_lsb); putv(s.chan, ch.bendsense_msb); putv(s.chan, ch.lastlrpn); putv(s.chan, ch.lastmrpn);
        putv(s.chan, ch.nrpn); putv(s.chan, ch.brightness); putv(s.chan, ch.is_xg_percussion); putv(s.chan, ch.vibspeed); putv(s.chan, ch.vibdepth); putv(s.chan, ch.vibdelay_us);
        for(OPNMIDIplay::MIDIchannel::notes_iterator it = ch.activenotes.begin(); !it.is_end(); ++it)
            s.notes.push_back(((uint32_t)c << 16) | ((uint32_t)it->value.note << 8) | it->value.vol);
    }
    std::vector<OPNMIDIplay::OpnChannel> &cc = Acc::chipChannels(p);
    s.users.resize(cc.size());
    for(size_t c = 0; c < cc.size(); ++c)
        for(OPNMIDIplay::OpnChannel::users_iterator j = cc[c].users.begin(); !j.is_end(); ++j)
            s.users[c].push_back(((uint32_t)j->value.loc.MidCh << 16) | ((uint32_t)j->value.loc.note << 8) | j->value.sustained);
    return s;
}

static std::vector<uint8_t> makeMsg(Rng &r, unsigned id, int which)
{
    std::vector<uint8_t> m;
    uint8_t udev = (uint8_t)(r.chance(0.5) ? 0x7F : id), rdev = (uint8_t)(0x10 | id);
    switch(which)
    {
    case 0: m = { 0xF0, 0x7E, udev, 0x09, 0x01, 0xF7 }; break;
    case 1: m = { 0xF0, 0x7E, udev, 0x09, 0x02, 0xF7 }; break;
    case 2: m = { 0xF0, 0x7F, udev, 0x04, 0x01, (uint8_t)r.below(128), (uint8_t)r.pick<int>({ 0, 1, 64, 100, 127, (int)r.below(128) }), 0xF7 }; break;
    case 3: m = { 0xF0, 0x41, rdev, 0x42, 0x12, 0x40, 0x00, 0x7F, 0x00, 0x41, 0xF7 }; break;
    case 4: { uint8_t mode = (uint8_t)r.below(2); uint8_t sum = (uint8_t)((128 - ((0x7F + mode) & 127)) & 127); m = { 0xF0, 0x41, rdev, 0x42, 0x12, 0x00, 0x00, 0x7F, mode, sum, 0xF7 }; break; }
    case 5: { uint8_t c = (uint8_t)r.below(16), v = (uint8_t)r.below(3); uint8_t sum = (uint8_t)((128 - ((0x40 + (0x10 | c) + 0x15 + v) & 127)) & 127);
              m = { 0xF0, 0x41, rdev, 0x42, 0x12, 0x40, (uint8_t)(0x10 | c), 0x15, v, sum, 0xF7 }; break; }
    default: m = { 0xF0, 0x43, rdev, 0x4C, 0x00, 0x00, 0x7E, 0x00, 0xF7 }; break;
    }
    return m;
}

static std::vector<uint8_t> corrupt(Rng &r, std::vector<uint8_t> m, unsigned id, int &kind)
{
    kind = (int)r.below(12);
    if(m.empty()) return m;
    switch(kind)
    {
    case 0: m[r.below(m.size())] ^= (uint8_t)(1u << r.below(8)); break;                       // bit flip
    case 1: m[r.below(m.size())] = (uint8_t)r.below(256); break;                              // byte replaced
    case 2: m.resize(r.below(m.size())); break;                                               // truncated
    case 3: m.insert(m.begin() + (long)r.range(1, (int64_t)m.size() - 1), (uint8_t)r.below(128)); break; // extended inside the frame
    case 4: m[2] = (uint8_t)((m[2] & 0xF0) | ((id + 1 + r.below(15)) & 0x0F)); break;         // other unit's id
    case 5: m[2] = 0x7F; break;                                                               // broadcast id
    case 6: if(m.size() >= 3) m[m.size() - 2] = (uint8_t)((m[m.size() - 2] + 1 + r.below(126)) & 0x7F); break; // checksum / last data byte
    case 7: m.erase(m.begin()); break;                                                        // missing F0
    case 8: m.pop_back(); break;                                                              // missing F7
    case 9: { std::vector<uint8_t> d = m; m.insert(m.end(), d.begin(), d.end()); break; }     // duplicated back to back in one call
    case 10: m[2] = (uint8_t)((m[2] & 0x0F) | (r.pick<int>({ 0x00, 0x20, 0x30, 0x70 }))); break; // wrong upper nibble of the device byte
    default: m.insert(m.end() - 1, (uint8_t)r.below(128)); break;                             // one byte too long
    }
    return m;
}

class C19 : public Check
{
public:
    const char *id() { return "C19"; }
    const char *opName(int k) { return sName(k); }
    int quickRuns() { return 60000; }
    int quickSeconds() { return 90; }
    int thoroughSeconds() { return 900; }
    const char *rule()
    {
        return "each run = seeded history mixing notes/pedals/controllers/device-id changes with SysEx deliveries (correct, corrupted-in-transit, random <=64 bytes; via opn2_rt_systemExclusive and via a playing SMF); "
               "distinct = distinct (message kind, corruption kind, reference verdict, prior mode, notes-sounding?, pedal-held?) tuples";
    }
    std::vector<std::string> realComponents() { return { "OPNMIDIplay::realTime_SysEx and the universal/Roland/Yamaha handlers, controller reset, level re-write path, sequencer SysEx event delivery" }; }
    std::vector<std::string> stubComponents() { return { "none" }; }
    std::vector<std::string> requiredProbes() { return { "accepted.gm_on", "accepted.master_volume", "accepted.gs_reset", "accepted.gs_drum", "accepted.xg_on", "rejected_with_sounding_notes", "rejected_with_pedal_held", "unspecified", "via_smf_accepted", "corrupt.checksum", "corrupt.length", "corrupt.device" }; }
    std::vector<std::string> assumptions() { return { "Roland/Yamaha messages addressed to 0x7F and messages whose data bytes have bit 7 set are 'unspecified': either outcome is allowed, but a reported rejection must change nothing and a reported acceptance must have the documented effect" }; }

    void generate(Rng &r, Plan &p, bool thorough)
    {
        p.cfg["bankseed"] = (int64_t)r.below(200);
        int len = (int)r.range(10, thorough ? 160 : 90);
        unsigned id = 0;
        for(int i = 0; i < len; ++i)
        {
            Op o; o.kind = (int)r.weighted({ 40, 18, 6, 12, 4, 4, 6, 4, 6 });
            int ch = (int)r.below(16);
            switch(o.kind)
            {
            case S_SYSEX: case S_SYSEX_SMF:
            {
                int which = (int)r.below(8); o.a[0] = which; o.a[1] = -1;
                if(which == 7) { size_t n = (size_t)r.below(65); for(size_t k = 0; k < n; ++k) o.blob.push_back((uint8_t)r.below(256)); if(n >= 2 && r.chance(0.6)) { o.blob[0] = 0xF0; o.blob[n - 1] = 0xF7; if(n > 3) { o.blob[1] = (uint8_t)r.pick<int>({ 0x41, 0x43, 0x7E, 0x7F }); o.blob[2] = (uint8_t)r.pick<int>({ 0x7F, (int)id, 0x10 | (int)id }); } } }
                else
                {
                    o.blob = makeMsg(r, id, which);
                    if(r.chance(0.55)) { int kind; o.blob = corrupt(r, o.blob, id, kind); o.a[1] = kind; }
                }
                break;
            }
            case S_NOTE_ON: o.a[0] = ch; o.a[1] = (int64_t)r.range(30, 90); o.a[2] = (int64_t)r.range(1, 127); break;
            case S_NOTE_OFF: o.a[0] = ch; o.a[1] = (int64_t)r.range(30, 90); break;
            case S_CC: o.a[0] = ch; o.a[1] = r.pick<int>({ 7, 10, 11, 64, 64, 66, 67, 74, 1, 0, 32, 100, 101, 6 }); o.a[2] = (int64_t)r.below(128); break;
            case S_PATCH: o.a[0] = ch; o.a[1] = (int64_t)r.below(128); break;
            case S_BEND: o.a[0] = ch; o.a[1] = (int64_t)r.below(16384); break;
            case S_SET_DEVICE: o.a[0] = (int64_t)r.below(16); id = (unsigned)o.a[0]; break;
            case S_TICK: o.d = r.pick<double>({ 0.0, 0.01, 0.05, 0.5 }); break;
            }
            p.ops.push_back(o);
        }
    }

    static bool controllersAtDefault(OPNMIDIplay *pl, std::string &why)
    {
        for(size_t c = 0; c < pl->m_midiChannels.size(); ++c)
        {
            OPNMIDIplay::MIDIchannel &ch = pl->m_midiChannels[c];
            if(ch.volume != ch.def_volume) { why = "volume"; return false; }
            if(ch.expression != 127) { why = "expression"; return false; }
            if(ch.panning != 64) { why = "pan"; return false; }
            if(ch.bend != 0) { why = "bend"; return false; }
            if(ch.sustain) { why = "sustain"; return false; }
            if(ch.softPedal) { why = "softPedal"; return false; }
            if(ch.brightness != 127) { why = "brightness"; return false; }
            if(ch.vibrato != 0) { why = "vibrato"; return false; }
            if(ch.bendsense_msb != ch.def_bendsense_msb || ch.bendsense_lsb != ch.def_bendsense_lsb) { why = "bend sensitivity"; return false; }
        }
        return true;
    }

    void execute(const Plan &p, Run &run)
    {
        SimFsScope fs; g_fs.reset();
        tapInstall(true);
        std::vector<uint8_t> img = stdBankImage((uint64_t)p.get("bankseed"), 1, 1);
        OPN2_MIDIPlayer *dev = opn2_init(44100);
        opn2_openBankData(dev, img.data(), (long)img.size());
        opn2_switchEmulator(dev, OPNMIDI_EMU_GENS);
        OPNMIDIplay *pl = Acc::P(dev);
        unsigned deviceId = 0;
        static const uint8_t gsMap[16] = { 9, 0, 1, 2, 3, 4, 5, 6, 7, 8, 10, 11, 12, 13, 14, 15 };
        for(size_t i = 0; i < p.ops.size() && !run.failed(); ++i)
        {
            const Op &o = p.ops[i];
            noteOp((int)i, o.kind);
            int ch = (int)o.a[0] & 15;
            switch(o.kind)
            {
            case S_SYSEX:
            {
                SxDecision d = refSysEx(o.blob, deviceId);
                SxSnap before = takeSnap(dev);
                bool sounding = !before.notes.empty(), held = false;
                for(size_t c = 0; c < before.users.size(); ++c) for(size_t k = 0; k < before.users[c].size(); ++k) if(before.users[c][k] & 0xFF) held = true;
                g_tap.recs.clear();
                std::vector<uint8_t> copy = o.blob; // exact-size block
                ExactBuf eb(copy.size()); if(!copy.empty()) memcpy(eb.p, copy.data(), copy.size());
                int ret = opn2_rt_systemExclusive(dev, eb.p, copy.size());
                size_t writes = g_tap.recs.size();
                SxSnap after = takeSnap(dev);
                Hasher h; h.add((uint64_t)o.a[0]); h.add((uint64_t)(o.a[1] + 1)); h.add((uint64_t)d.verdict); h.add(before.mode); h.add(sounding); h.add(held);
                run.state(h.h); run.log.add((uint64_t)ret); run.log.add(after.mode); run.log.add(after.master);
                if(o.a[1] == 6) run.count("corrupt.checksum");
                if(o.a[1] == 2 || o.a[1] == 3 || o.a[1] == 11 || o.a[1] == 9) run.count("corrupt.length");
                if(o.a[1] == 4 || o.a[1] == 5 || o.a[1] == 10) run.count("corrupt.device");
                bool accepted = (ret == 1);
                if(ret != 0 && ret != 1) { run.fail("sysex-return-value", sName(o.kind), "opn2_rt_systemExclusive returned " + std::to_string(ret)); break; }
                if(d.verdict == SX_UNSPECIFIED) run.count("unspecified");
                if(d.verdict == SX_REJECT && accepted)
                { run.fail("malformed-sysex-accepted", "kind" + std::to_string(o.a[0]) + ".corrupt" + std::to_string(o.a[1]), "message " + toHex(o.blob) + " (device id " + std::to_string(deviceId) + ") is not a well-formed recognised message but was accepted"); break; }
                if(d.verdict == SX_ACCEPT && !accepted)
                { run.fail("valid-sysex-rejected", "effect" + std::to_string((int)d.effect), "message " + toHex(o.blob) + " (device id " + std::to_string(deviceId) + ") is well-formed and addressed to this device but was rejected"); break; }
                if(!accepted)
                {
                    if(sounding) run.count("rejected_with_sounding_notes");
                    if(held) run.count("rejected_with_pedal_held");
                    if(!(before == after)) { run.fail("rejected-sysex-changed-state", "kind" + std::to_string(o.a[0]), "message " + toHex(o.blob) + " was reported rejected but mode/controllers/notes changed"); break; }
                    if(writes) { run.fail("rejected-sysex-wrote-registers", "kind" + std::to_string(o.a[0]), "message " + toHex(o.blob) + " was reported rejected but " + std::to_string(writes) + " chip register writes were issued"); break; }
                    break;
                }
                // accepted (by verdict ACCEPT, or UNSPECIFIED and the implementation chose to accept): documented effect
                std::string why;
                switch(d.effect)
                {
                case FX_GM_ON: case FX_GS_RESET: case FX_XG_ON: case FX_GM_OFF:
                {
                    uint32_t want = d.effect == FX_GM_ON ? 0u : (d.effect == FX_GS_RESET ? 1u : 2u);
                    if(d.effect != FX_GM_OFF && after.mode != want) { run.fail("mode-not-switched", "effect" + std::to_string((int)d.effect), "accepted " + toHex(o.blob) + " but synth mode is " + std::to_string(after.mode)); break; }
                    if(!controllersAtDefault(pl, why)) { run.fail("controllers-not-reset", "effect" + std::to_string((int)d.effect), "accepted mode message " + toHex(o.blob) + " but " + why + " was not reset"); break; }
                    if(after.master != 127) { run.fail("controllers-not-reset", "effect" + std::to_string((int)d.effect), "master volume not reset by mode message"); break; }
                    run.count(d.effect == FX_GM_ON ? "accepted.gm_on" : (d.effect == FX_GS_RESET ? "accepted.gs_reset" : (d.effect == FX_XG_ON ? "accepted.xg_on" : "accepted.gm_off")));
                    break;
                }
                case FX_MASTER_VOLUME:
                    if(after.master != (uint8_t)d.arg0) { run.fail("master-volume-not-applied", "effect3", "accepted " + toHex(o.blob) + " but master volume is " + std::to_string(after.master)); break; }
                    if(sounding && writes == 0 && before.master != after.master) { run.fail("master-volume-not-applied", "effect3", "master volume changed with sounding notes but no level was re-written"); break; }
                    run.count("accepted.master_volume");
                    break;
                case FX_GS_DRUM:
                {
                    bool want = (d.arg1 == 1 || d.arg1 == 2);
                    if(pl->m_midiChannels[gsMap[d.arg0]].is_xg_percussion != want) { run.fail("drum-part-not-assigned", "effect5", "accepted " + toHex(o.blob) + " but part " + std::to_string(d.arg0) + " drum flag is wrong"); break; }
                    run.count("accepted.gs_drum");
                    break;
                }
                default:
                    run.fail("accepted-without-model", "kind" + std::to_string(o.a[0]), "message " + toHex(o.blob) + " accepted but the reference knows no effect for it");
                    break;
                }
                break;
            }
            case S_SYSEX_SMF:
            {
                // the same packet as a SysEx event at tick 0 of a playing SMF (prior state = state after load)
                if(o.blob.empty() || (o.blob[0] != 0xF0)) break;
                Song s; s.format = 0; s.division = 96; s.tracks.resize(1);
                SEvent e; e.tick = 0; e.status = 0xF0; e.data.assign(o.blob.begin() + 1, o.blob.end());
                s.tracks[0].ev.push_back(e);
                SEvent nn; nn.tick = 96; nn.status = 0x90; nn.ch = 0; nn.d1 = 60; nn.d2 = 1; s.tracks[0].ev.push_back(nn);
                s.tracks[0].eotTick = 192;
                std::vector<uint8_t> smf = writeSmf(s, false);
                if(opn2_openData(dev, smf.data(), (unsigned long)smf.size()) != 0) { run.fail("smf-load-failed", sName(o.kind), opn2_errorInfo(dev)); break; }
                // the device id is the one the user set: a file load must not re-address the synthesizer (the reference does NOT follow the library here)
                SxDecision d = refSysEx(o.blob, deviceId);
                opn2_tickEvents(dev, 0.001, 0.0);
                if(d.verdict == SX_ACCEPT)
                {
                    run.count("via_smf_accepted");
                    if(d.effect == FX_GM_ON && pl->m_synthMode != 0) run.fail("mode-not-switched", "viaSmf", "GM on inside SMF ignored");
                    if(d.effect == FX_GS_RESET && pl->m_synthMode != 1) run.fail("mode-not-switched", "viaSmf", "GS reset inside SMF ignored");
                    if(d.effect == FX_MASTER_VOLUME && pl->m_synth->m_masterVolume != (uint8_t)d.arg0) run.fail("master-volume-not-applied", "viaSmf", "master volume inside SMF ignored");
                    if(d.effect == FX_GS_DRUM && pl->m_midiChannels[gsMap[d.arg0]].is_xg_percussion != (d.arg1 == 1 || d.arg1 == 2)) run.fail("drum-part-not-assigned", "viaSmf", "GS drum part inside SMF ignored");
                }
                else if(d.verdict == SX_REJECT)
                {
                    if(pl->m_synthMode != 2 || pl->m_synth->m_masterVolume != 127) run.fail("malformed-sysex-accepted", "viaSmf", "malformed SysEx " + toHex(o.blob) + " inside SMF changed mode/master volume");
                    for(size_t c = 0; c < 16 && !run.failed(); ++c) if(pl->m_midiChannels[c].is_xg_percussion) run.fail("malformed-sysex-accepted", "viaSmf", "malformed SysEx inside SMF set a drum flag");
                }
                break;
            }
            case S_NOTE_ON: opn2_rt_noteOn(dev, (OPN2_UInt8)ch, (OPN2_UInt8)o.a[1], (OPN2_UInt8)o.a[2]); break;
            case S_NOTE_OFF: opn2_rt_noteOff(dev, (OPN2_UInt8)ch, (OPN2_UInt8)o.a[1]); break;
            case S_CC: opn2_rt_controllerChange(dev, (OPN2_UInt8)ch, (OPN2_UInt8)o.a[1], (OPN2_UInt8)o.a[2]); break;
            case S_PATCH: opn2_rt_patchChange(dev, (OPN2_UInt8)ch, (OPN2_UInt8)o.a[1]); break;
            case S_BEND: opn2_rt_pitchBend(dev, (OPN2_UInt8)ch, (OPN2_UInt16)o.a[1]); break;
            case S_SET_DEVICE: if(opn2_setDeviceIdentifier(dev, (unsigned)o.a[0]) == 0) deviceId = (unsigned)o.a[0]; break;
            case S_TICK: opn2_tickEvents(dev, o.d, 0.0); run.simSeconds += o.d; break;
            }
            g_tap.recs.clear();
        }
        opn2_close(dev);
        tapInstall(false);
    }

    void shrinkOp(const Op &o, std::vector<Op> &out)
    {
        if(o.kind == S_SYSEX && o.blob.size() > 1) { for(size_t k = 1; k + 1 < o.blob.size(); ++k) { Op x = o; x.blob.erase(x.blob.begin() + (long)k); out.push_back(x); if(out.size() > 12) break; } }
    }
};

int main(int argc, char **argv)
{
    C19 c;
    return driverMain(c, argc, argv);
}
