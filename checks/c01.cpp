// asan_max_alloc_mb: 320
// C01 — untrusted music data never crashes, corrupts memory or hangs the player.
// Workload per run: 1-3 music images, each either (a) a well-formed file from the harness's own
// SMF/RMI/GMF/MUS/XMI writers damaged by storage faults (truncate at every offset class, bit flips, splices),
// or (b) a header-valid skeleton for one of the eight detectors followed by structured random content.
// Loaded through opn2_openData (exact-size block) or opn2_openFile on SimFS with libc-level faults
// (missing file, short read, read error, seek failure, ftell failure). Then a follow-up history of 0-40 calls:
// play / tickEvents / seek / rewind / selectSongNum(-1..count+1) / tell / length / loop times / atEnd /
// trackCount / every meta query (index in and out of range) / track+channel masks / loop / tempo / a second
// load / close.
// Oracle: (1) load returns 0 or -1 and on -1 opn2_errorInfo is non-empty; (2) ASan + bounds clean, no abort,
// no exception through the C API; (3) CPU watchdog; (4) no single allocation above 320 MiB (64 MiB + 4096 x the
// 64 KiB input bound): memory proportional to the input; (5) after a failed load a valid file still loads.
#include "../sim/apiops.hpp"
#include "../sim/formats.hpp"

using namespace sim;

class C01 : public Check
{
public:
    const char *id() { return "C01"; }
    const char *opName(int k) { return apiOpName(k); }
    int quickRuns() { return 60000; }
    int quickSeconds() { return 90; }
    int thoroughSeconds() { return 1200; }
    int cpuBudgetSec() { return 20; }
    const char *rule()
    {
        return "each run = 1-3 music images (valid file + storage faults, or detector skeleton + structured random content; <= 64 KiB) loaded via openData/openFile(SimFS + libc faults) and a follow-up history of 0..40 sequencer/audio/meta calls; "
               "distinct = distinct (image source, detector/format, load outcome, error text, fault kinds fired, follow-up op kind) tuples";
    }
    std::vector<std::string> realComponents() { return { "FileAndMemReader, BW_MidiSequencer loaders for SMF/RMI/GMF/MUS/XMI/CMF/IMF/RSXX, Convert_mus2midi, Convert_xmi2midi_multi, playback/seek/meta paths, OPNMIDIplay" }; }
    std::vector<std::string> stubComponents() { return { "libc stdio replaced by SimFS (fault-injecting in-memory files)" }; }
    std::vector<std::string> requiredProbes() { return { "load_ok", "load_rejected", "format.smf", "format.rmi", "format.gmf", "format.mus", "format.xmi", "format.cmf", "format.imf", "format.rsxx", "fault.truncate", "fault.bitflip", "fault.splice", "fault.noent", "fault.shortread", "fault.readerr", "fault.seekfail", "fault.tellfail", "valid_load_after_rejected", "selectSong_minus1_xmi", "seek_on_loaded" }; }
    std::vector<std::string> assumptions() { return { "images are at most 64 KiB (the property's bound); tempo multiplier <= 16 (cost, see C03)" }; }

    static void addFollowUps(Rng &r, Plan &p, int n)
    {
        // one run in five walks through the song in steps while flipping one piece of playback state before every step
        // (loop on/off, loop count, a seek, a song switch): "the setting changed at every position of the song"
        if(n > 0 && r.chance(0.2))
        {
            int steps = (int)r.range(4, 14); int what = (int)r.below(4); bool flag = r.chance(0.5);
            for(int i = 0; i < steps; ++i)
            {
                Op f;
                switch(what)
                {
                case 0: f.kind = A_SET_LOOP_ENABLED; flag = !flag; f.a[0] = flag; break;
                case 1: f.kind = A_SEEK; f.d = r.real(0.0, 12.0); break;
                case 2: f.kind = A_SET_LOOP_COUNT; f.a[0] = (int64_t)r.range(-1, 3); break;
                default: f.kind = r.chance(0.5) ? A_SET_LOOP_ENABLED : A_SEEK; f.a[0] = (int64_t)r.below(2); f.d = r.real(0.0, 12.0); break;
                }
                p.ops.push_back(f);
                Op t; if(r.chance(0.7)) { t.kind = A_TICK_EVENTS; t.d = r.pick<double>({ 0.3, 0.7, 1.0, 1.5, 2.5, 4.0 }); t.a[0] = 2; } else { t.kind = A_PLAY; t.a[0] = r.pick<int>({ 4096, 8192 }); }
                p.ops.push_back(t);
            }
            return;
        }
        for(int i = 0; i < n; ++i)
        {
            Op o; o.kind = (int)r.pick<int>({ A_PLAY, A_PLAY, A_TICK_EVENTS, A_TICK_EVENTS, A_SEEK, A_SEEK, A_REWIND, A_SELECT_SONG, A_SELECT_SONG, A_GETTERS, A_META, A_META, A_SET_TRACK_OPTIONS, A_SET_CHANNEL_ENABLED,
                                              A_SET_LOOP_ENABLED, A_SET_LOOP_COUNT, A_SET_TEMPO, A_GENERATE, A_PLAY_FORMAT, A_RESET, A_PANIC, A_DESCRIBE_CHANNELS });
            switch(o.kind)
            {
            case A_PLAY: case A_GENERATE: o.a[0] = r.pick<int>({ 0, 2, 64, 512, 1024, 1026, 4096, 8192 }); break;
            case A_PLAY_FORMAT: o.a[0] = r.pick<int>({ 2, 512, 2048 }); o.a[1] = (int64_t)r.below(10); o.a[2] = r.pick<int>({ 1, 2, 4, 8 }); o.a[3] = o.a[2] * 2; o.a[4] = 0; break;
            case A_TICK_EVENTS: o.d = r.pick<double>({ 0.0, 0.001, 0.05, 0.5, 2.0, 10.0 }); o.a[0] = (int64_t)r.below(4); break;
            case A_SEEK: o.d = r.pick<double>({ -1.0, 0.0, 0.001, 0.5, 1.0, 3.0, 10.0, 100.0, 1e6 }); break;
            case A_SELECT_SONG: o.a[0] = (int64_t)r.range(-1, 5); break;
            case A_META: o.a[0] = r.chance(0.6) ? (int64_t)r.below(4) : (int64_t)r.pick<int64_t>({ -1, 1000, (int64_t)1 << 40 }); o.a[1] = r.chance(0.6) ? (int64_t)r.below(4) : (int64_t)r.pick<int64_t>({ -1, 1000, (int64_t)1 << 40 }); break;
            case A_SET_TRACK_OPTIONS: o.a[0] = r.chance(0.7) ? (int64_t)r.below(6) : (int64_t)r.pick<int64_t>({ -1, 1000 }); o.a[1] = (int64_t)r.below(5); break;
            case A_SET_CHANNEL_ENABLED: o.a[0] = (int64_t)r.below(18); o.a[1] = (int64_t)r.below(2); break;
            case A_SET_LOOP_ENABLED: o.a[0] = (int64_t)r.below(2); break;
            case A_SET_LOOP_COUNT: o.a[0] = (int64_t)r.range(-1, 3); break;
            case A_SET_TEMPO: o.d = r.pick<double>({ 0.0, 0.25, 1.0, 4.0, 16.0 }); break;
            case A_DESCRIBE_CHANNELS: o.a[0] = (int64_t)r.pick<int>({ 0, 1, 13, 100 }); break;
            default: break;
            }
            p.ops.push_back(o);
        }
    }

    void generate(Rng &r, Plan &p, bool thorough)
    {
        p.cfg["rate"] = r.pick<int>({ 8000, 22050, 44100 });
        p.cfg["emu"] = r.pick<int>({ 2, 2, 7, 0 });
        int nimg = (int)r.weighted({ 0, 6, 3, 1 });
        if(r.chance(0.3)) p.ops.push_back(Op(A_SELECT_SONG, (int64_t)r.range(-1, 4)));
        for(int k = 0; k < nimg; ++k)
        {
            Op o; o.kind = r.chance(0.65) ? A_OPEN_DATA : A_OPEN_FILE;
            int src = (int)r.weighted({ 45, 45, 10 });
            o.a[2] = src;
            if(src == 0)
            {
                int kind; o.blob = validMusicFile(r, kind); o.a[3] = kind;
                int nf = (int)r.weighted({ 15, 60, 20, 5 });
                for(int f = 0; f < nf && !o.blob.empty(); ++f)
                {
                    switch(r.weighted({ 40, 40, 20 }))
                    {
                    case 0: { size_t n = o.blob.size(); size_t at = r.chance(0.3) ? r.below(std::min<size_t>(n, 24)) : (r.chance(0.3) ? n - 1 - r.below(std::min<size_t>(n, 8)) : r.below(n)); o.faults.push_back(Fault(FS_TRUNCATE, (int64_t)at)); break; }
                    case 1: o.faults.push_back(Fault(FS_BITFLIP, (int64_t)r.below(o.blob.size()), (int64_t)(1u << r.below(8)))); break;
                    default: o.faults.push_back(Fault(FS_SPLICE, (int64_t)r.below(o.blob.size()), (int64_t)r.below(1u << 20))); break;
                    }
                }
            }
            else if(src == 1) { int det; o.blob = fuzzMusicFile(r, det); o.a[3] = 10 + det; }
            else { size_t n = (size_t)r.below(200); for(size_t i = 0; i < n; ++i) o.blob.push_back((uint8_t)r.below(256)); o.a[3] = 20; }
            if(o.blob.size() > 65536) o.blob.resize(65536);
            if(o.blob.empty()) o.blob.push_back(0);
            if(o.kind == A_OPEN_FILE)
            {
                if(r.chance(0.5)) switch(r.below(5))
                {
                case 0: o.faults.push_back(Fault(FS_NOENT, 0)); break;
                case 1: o.faults.push_back(Fault(FS_SHORTREAD, (int64_t)r.below(o.blob.size() + 1))); break;
                case 2: o.faults.push_back(Fault(FS_READERR, (int64_t)r.below(o.blob.size() + 1))); break;
                case 3: o.faults.push_back(Fault(FS_SEEKFAIL, 0)); break;
                default: o.faults.push_back(Fault(FS_TELLFAIL, 0)); break;
                }
            }
            p.ops.push_back(o);
            addFollowUps(r, p, (int)r.range(0, thorough ? 40 : 20));
        }
    }

    void execute(const Plan &p, Run &run)
    {
        SimFsScope fs; g_fs.reset();
        opn2_set_vgm_out_path("kek.vgm");
        World w; w.run = &run; w.maxInst = 1;
        w.bankImages.push_back(stdBankImage(3, 1, 1));
        { Op o(A_INIT, p.get("rate", 22050)); execApi(w, o); }
        { Op o(A_OPEN_BANK_DATA, 0); execApi(w, o); }
        { Op o(A_SWITCH_EMULATOR, p.get("emu", 2)); execApi(w, o); }
        std::vector<uint8_t> good = stockSong(11, 0);
        bool lastLoadFailed = false;
        for(size_t i = 0; i < p.ops.size() && !run.failed(); ++i)
        {
            const Op &o = p.ops[i];
            noteOp((int)i, o.kind);
            if(w.inst.empty()) break;
            OPN2_MIDIPlayer *dev = w.inst[0]->dev;
            if(o.kind == A_OPEN_DATA || o.kind == A_OPEN_FILE)
            {
                ApiResult res = execApi(w, o);
                const char *err = opn2_errorInfo(dev);
                if(res.ret != 0 && res.ret != -1) { run.fail("load-return-value", apiOpName(o.kind), "load returned " + std::to_string(res.ret)); break; }
                if(res.ret == -1 && (!err || !*err)) { run.fail("rejected-without-error-text", apiOpName(o.kind), "load returned -1 but opn2_errorInfo is empty"); break; }
                run.count(res.ret == 0 ? "load_ok" : "load_rejected");
                lastLoadFailed = res.ret != 0;
                static const char *fmtNames[] = { "smf", "rmi", "gmf", "mus", "xmi", "", "", "", "", "", "smf", "rmi", "gmf", "mus", "xmi", "cmf", "imf", "rsxx", "", "", "raw" };
                if(o.a[3] >= 0 && o.a[3] <= 20 && fmtNames[o.a[3]][0]) run.count((std::string("format.") + fmtNames[o.a[3]]).c_str());
                if(res.ret == 0 && opn2_getSongsCount(dev) > 1) run.count("xmi_multi_song_loaded");
                Hasher h; h.add((uint64_t)o.a[2]); h.add((uint64_t)o.a[3]); h.add((uint64_t)res.ret); h.add(hashStr(err ? err : "")); for(size_t f = 0; f < o.faults.size(); ++f) h.add((uint64_t)o.faults[f].kind);
                run.state(h.h);
                if(lastLoadFailed && (i % 3) == 0)
                {
                    // (5) the instance must still accept a valid file
                    int rc = opn2_openData(dev, good.data(), (unsigned long)good.size());
                    if(rc != 0) { run.fail("valid-file-rejected-after-failed-load", apiOpName(o.kind), std::string("a valid SMF was rejected after a failed load: ") + opn2_errorInfo(dev)); break; }
                    run.count("valid_load_after_rejected");
                    lastLoadFailed = false;
                }
                continue;
            }
            if(o.kind == A_SELECT_SONG && o.a[0] == -1 && opn2_getSongsCount(dev) > 0) run.count("selectSong_minus1_xmi");
            if(o.kind == A_SEEK && w.inst[0]->songLoaded) run.count("seek_on_loaded");
            execApi(w, o);
            Hasher h; h.add(0xF0110); h.add((uint64_t)o.kind); h.add(w.inst.empty() ? 0 : (uint64_t)w.inst[0]->songLoaded); run.state(h.h);
        }
        for(std::map<std::string, uint64_t>::iterator it = g_fs.fired.begin(); it != g_fs.fired.end(); ++it) run.counters["fault." + it->first] += it->second;
        w.closeAll();
    }

    void shrinkOp(const Op &o, std::vector<Op> &out)
    {
        if((o.kind == A_OPEN_DATA || o.kind == A_OPEN_FILE) && o.blob.size() > 16)
        {
            // byte-range deletion from the image (tail first, then middles)
            size_t n = o.blob.size();
            for(size_t cut = n / 2; cut >= 1 && out.size() < 10; cut /= 2) { Op x = o; x.blob.resize(n - cut); out.push_back(x); }
            for(size_t cut = n / 4; cut >= 4 && out.size() < 18; cut /= 2) { Op x = o; size_t at = n / 2; x.blob.erase(x.blob.begin() + (long)at, x.blob.begin() + (long)std::min(n, at + cut)); out.push_back(x); }
        }
        if(o.kind == A_OPEN_FILE) { Op x = o; x.kind = A_OPEN_DATA; for(size_t f = 0; f < x.faults.size();) if(x.faults[f].kind < FS_TRUNCATE) x.faults.erase(x.faults.begin() + (long)f); else ++f; out.push_back(x); }
        if((o.kind == A_PLAY || o.kind == A_GENERATE) && o.a[0] > 2) { Op x = o; x.a[0] = 2; out.push_back(x); }
        if(o.kind == A_TICK_EVENTS && o.d > 0.001) { Op x = o; x.d = 0.001; out.push_back(x); }
    }
};

int main(int argc, char **argv)
{
    C01 c;
    return driverMain(c, argc, argv);
}
