// C10 — programmed pitch = key + bend*range + instrument offset (in tune).
// Workload: note-ons over all keys, instruments with note offset -36..+36 and drum keys, pitch bend over the
// 14-bit range (boundary-biased), RPN 0 ranges, vibrato (CC1, aftertouch) and portamento (CC5/37/65) with time
// advancing in scheduler-chosen slices, both chip families, pedal-held notes.
// Oracle: invariant on every tapped 0xA4/0xA0 pair: the model tracks per sounding note
// p = tone + bend*range + offset (+ bounded vibrato / glide end points) and requires
// |fnum_written - fnum_ideal(block_written)| <= 1 for every p inside the native range, the 0x30..0x3C bytes equal
// to the instrument's own there, monotonicity in p within a run, and a re-pitch write for every key-down note of
// the channel inside the bend call.
// Honest limit: the mapping is a pure function; it is checked on the writes the histories produce (sampled).
#include "../sim/snapshot.hpp"

using namespace sim;

enum { F_NOTE_ON = 0, F_NOTE_OFF, F_BEND, F_RANGE, F_PATCH, F_TICK, F_VIBRATO, F_GLIDE_PAIR, F_PEDAL, F_COUNT };
static const char *fName(int k) { static const char *n[] = { "noteOn", "noteOff", "pitchBend", "bendRange", "patchChange", "tickEvents", "vibrato", "glidePair", "pedal" }; return k >= 0 && k < F_COUNT ? n[k] : "?"; }

struct Sounding { int ch, key; double tone; int noteOffset; int prog; bool drum; bool keyDown; uint8_t dtfm[4]; bool gliding; double glideFrom; double lingering; /* released drum inside its 30 ms minimum life: still occupies its channel */ };

class C10 : public Check
{
public:
    const char *id() { return "C10"; }
    const char *opName(int k) { return fName(k); }
    int quickRuns() { return 60000; }
    int quickSeconds() { return 90; }
    int thoroughSeconds() { return 900; }
    const char *rule()
    {
        return "each run = one chip family, one generated bank (note offsets -36..36, drum keys) and a seeded history of note-ons over all keys, boundary-biased bends, RPN-0 ranges, program changes, vibrato, portamento pairs and time slices; every frequency write seen on the register tap is decoded and compared with the equal-tempered ideal; "
               "distinct = distinct (family, block written, bend class, range class, offset class, kind of re-pitch: note-on/bend/vibrato/glide) tuples";
    }
    std::vector<std::string> realComponents() { return { "realTime_NoteOn/PitchBend/Controller(RPN 0, CC1/5/37/65), noteUpdate(Upd_Pitch), updateVibrato/updateGlide, OPN2::noteOn (octave search, F-number rounding, multiplier approximation)" }; }
    std::vector<std::string> stubComponents() { return { "no audio rendered (VGM-dumper/GENS core constructed only)" }; }
    std::vector<std::string> requiredProbes() { return { "write_checked", "family.opn2", "family.opna", "bend_repitch", "above_native_range_skipped", "vibrato_write", "glide_endpoints", "pedal_held_not_required", "block0", "block7", "drum_key_pitch" }; }

    void generate(Rng &r, Plan &p, bool thorough)
    {
        p.cfg["family"] = (int64_t)r.below(2);
        p.cfg["bankseed"] = (int64_t)r.below(100000);
        p.cfg["chips"] = (int64_t)r.range(2, 4);
        int nch = (int)r.range(1, 3); std::vector<int> chans; for(int i = 0; i < nch; ++i) chans.push_back((int)r.below(9)); if(r.chance(0.4)) chans.push_back(9);
        int len = (int)r.range(20, thorough ? 200 : 100);
        for(int i = 0; i < len; ++i)
        {
            Op o; o.kind = (int)r.weighted({ 34, 16, 22, 6, 8, 6, 3, 3, 2 });
            int ch = chans[r.below(chans.size())];
            switch(o.kind)
            {
            case F_NOTE_ON: o.a[0] = ch; o.a[1] = r.chance(0.8) ? (int64_t)r.below(128) : (int64_t)r.pick<int>({ 0, 1, 11, 12, 115, 116, 126, 127 }); o.a[2] = (int64_t)r.range(1, 127); break;
            case F_NOTE_OFF: o.a[0] = ch; o.a[1] = (int64_t)r.below(1000); break;
            case F_BEND: o.a[0] = ch; o.a[1] = r.chance(0.5) ? (int64_t)r.pick<int>({ 0, 1, 8191, 8192, 8193, 16382, 16383, 4096, 12288 }) : (int64_t)r.below(16384); break;
            case F_RANGE: o.a[0] = ch; o.a[1] = (int64_t)r.pick<int>({ 0, 1, 2, 2, 7, 12, 24, 48, 127 }); o.a[2] = r.chance(0.35) ? (int64_t)r.below(100) : 0; o.a[3] = (int64_t)r.below(4); break;   // a[3]: order of the RPN select bytes / a preceding NRPN
            case F_PATCH: o.a[0] = ch; o.a[1] = (int64_t)r.below(128); break;
            case F_TICK: o.d = r.pick<double>({ 0.0, 0.01, 0.05, 0.3 }); break;
            case F_VIBRATO: o.a[0] = ch; o.a[1] = (int64_t)r.pick<int>({ 0, 0, 1, 64, 127 }); o.a[2] = (int64_t)r.below(2); break;
            case F_GLIDE_PAIR: o.a[0] = ch == 9 ? 0 : ch; o.a[1] = (int64_t)r.range(24, 100); o.a[2] = (int64_t)r.range(24, 100); o.a[3] = (int64_t)r.pick<int>({ 1, 16, 64, 127 }); break;
            case F_PEDAL: o.a[0] = ch; o.a[1] = (int64_t)r.pick<int>({ 0, 127 }); break;
            }
            p.ops.push_back(o);
        }
    }

    struct Write { unsigned chan; unsigned fnum, block; uint8_t dtfm[4]; bool haveDtfm; };

    // decode the frequency writes (A4 then A0, followed by key-on) of the tap records of one call
    static Run *&logRun() { static Run *r = NULL; return r; }   // every decoded frequency write goes into the run's event log (determinism gates compare it)
    struct CurDt { uint8_t v[4]; unsigned mask; CurDt() : mask(0) { memset(v, 0, 4); } };
    static std::map<std::pair<const void *, unsigned>, CurDt> &curDt() { static std::map<std::pair<const void *, unsigned>, CurDt> m; return m; }
    static std::vector<Write> decode(const void *synth)
    {
        std::vector<Write> out; std::map<unsigned, unsigned> a4; std::map<unsigned, std::vector<std::pair<unsigned, unsigned> > > dt;
        for(size_t k = 0; k < g_tap.recs.size(); ++k)
        {
            const TapRec &t = g_tap.recs[k]; if(t.synth != synth || t.isPan) continue;
            if(t.reg >= 0x30 && t.reg < 0x40 && (t.reg & 3) != 3) { unsigned c = t.chip * 6 + t.port * 3 + (t.reg & 3); dt[c].push_back(std::make_pair((unsigned)((t.reg - 0x30) >> 2), (unsigned)t.val)); CurDt &cd = curDt()[std::make_pair(synth, c)]; cd.v[((t.reg - 0x30) >> 2) & 3] = (uint8_t)t.val; cd.mask |= 1u << (((t.reg - 0x30) >> 2) & 3); }
            else if(t.reg >= 0xA4 && t.reg <= 0xA6) a4[t.chip * 6 + t.port * 3 + (t.reg - 0xA4)] = t.val;
            else if(t.reg >= 0xA0 && t.reg <= 0xA2)
            {
                unsigned c = t.chip * 6 + t.port * 3 + (t.reg - 0xA0); Write w; w.chan = c; unsigned ft = (a4[c] << 8) | t.val; w.block = (ft >> 11) & 7; w.fnum = ft & 0x7FF; w.haveDtfm = false;
                std::vector<std::pair<unsigned, unsigned> > &d = dt[c];
                if(d.size() >= 4) { w.haveDtfm = true; for(size_t q = d.size() - 4; q < d.size(); ++q) w.dtfm[d[q].first & 3] = (uint8_t)d[q].second; }
                // the detune/multiple bytes the chip holds for this channel at the moment of the frequency write (whenever they were written): the sounding
                // frequency is F-number x multiple, so inside the native range they have to be the instrument's own also when this call did not write them
                { CurDt &cd = curDt()[std::make_pair(synth, c)]; if(!w.haveDtfm && cd.mask == 0xF) { w.haveDtfm = true; memcpy(w.dtfm, cd.v, 4); } }
                d.clear(); out.push_back(w);
                if(logRun()) { logRun()->log.add(w.chan); logRun()->log.add(w.block); logRun()->log.add(w.fnum); }
            }
        }
        return out;
    }

    void execute(const Plan &p, Run &run)
    {
        SimFsScope fs; g_fs.reset();
        tapInstall(true);
        logRun() = &run; curDt().clear();
        const int family = (int)p.get("family", 0);
        const double clock = family ? 7987200.0 : 7670454.0;
        Rng br(mix64((uint64_t)p.get("bankseed"), 0xC10)); BankGenOpts bo; GenWopn gw = genWopn(br, bo);
        for(int s = 0; s < 2; ++s) for(int k = 0; k < 128; ++k) { GenIns &in = (s ? gw.perc : gw.mel)[0].ins[k]; in.noteOffset = (int16_t)(br.chance(0.5) ? 0 : br.range(-36, 36)); if(s) in.percKey = (uint8_t)(br.chance(0.85) ? br.range(20, 100) : 0); in.blank = false; in.delayOn = 40000; in.delayOff = 50; }
        gw.chipType = (uint8_t)family;
        std::vector<uint8_t> bank = writeWopn(gw);
        OPN2_MIDIPlayer *dev = opn2_init(44100);
        opn2_openBankData(dev, bank.data(), (long)bank.size());
        opn2_switchEmulator(dev, OPNMIDI_EMU_GENS); opn2_setNumChips(dev, (int)p.get("chips", 2));
        if(opn2_getChipType(dev) != family) { run.fail("chip-family-not-from-bank", "setup", "bank declares family " + std::to_string(family) + " but opn2_getChipType is " + std::to_string(opn2_getChipType(dev))); opn2_close(dev); tapInstall(false); return; }
        run.count(family ? "family.opna" : "family.opn2");
        OPNMIDIplay *pl = Acc::P(dev); const void *synth = pl->m_synth.get();
        const int nChan = (int)p.get("chips", 2) * 6;
        int bend[16], rangeMsb[16], rangeLsb[16], patch[16], vib[16]; bool pedal[16];
        for(int c = 0; c < 16; ++c) { bend[c] = 0; rangeMsb[c] = 2; rangeLsb[c] = 0; patch[c] = 0; vib[c] = 0; pedal[c] = false; }
        std::map<unsigned, Sounding> byChan;         // chip channel -> note sounding there (model-side table)
        std::vector<std::pair<double, double> > mono[2][128]; // per instrument: (p, f) observations

        auto idealFnum = [&](double pn, unsigned block) { double f = 440.0 * std::pow(2.0, (pn - 69.0) / 12.0); return f * 144.0 * std::ldexp(1.0, 21 - (int)block) / clock; };
        auto hz = [&](const Write &w) { return (double)w.fnum * std::ldexp(1.0, (int)w.block - 21) * clock / 144.0; };
        // judge one frequency write against pitch pn (semitones); slack = extra allowed deviation in semitones (vibrato, LSB reading)
        auto judge = [&](const Write &w, const Sounding &s, double pn, double slackLo, double slackHi, const char *kind) -> bool
        {
            double fIdeal = 440.0 * std::pow(2.0, (pn - 69.0) / 12.0);
            // native range: F-number <= 2036 at block 7 (about 6.6 kHz); above it the multiplier approximation takes over, which the
            // property excludes. The whole tolerance window (vibrato swing, LSB reading) has to be inside the native range.
            double fTop = 440.0 * std::pow(2.0, (pn + slackHi - 69.0) / 12.0);
            if(fTop >= 0.995 * 2036.0 * std::ldexp(1.0, -14) * clock / 144.0) { run.count("above_native_range_skipped"); return true; }
            double lo = idealFnum(pn - slackLo, w.block) - 1.0, hi = idealFnum(pn + slackHi, w.block) + 1.0;
            Hasher st; st.add((uint64_t)family); st.add(w.block); st.add((uint64_t)(bend[s.ch] == 0 ? 0 : bend[s.ch] > 0 ? 1 : 2)); st.add((uint64_t)(rangeMsb[s.ch] > 12 ? 2 : rangeMsb[s.ch] > 2)); st.add((uint64_t)(s.noteOffset == 0 ? 0 : s.noteOffset > 0 ? 1 : 2)); st.add(hashStr(kind)); run.state(st.h);
            run.count("write_checked"); if(w.block == 0) run.count("block0"); if(w.block == 7) run.count("block7"); if(s.drum) run.count("drum_key_pitch");
            if((double)w.fnum < lo - 1e-9 || (double)w.fnum > hi + 1e-9)
            {
                char buf[400]; snprintf(buf, sizeof buf, "%s: MIDI ch %d key %d (tone %.3f, offset %d, bend %d, range %d.%d) => p=%.4f = %.3f Hz; chip channel %u got block %u fnum %u = %.3f Hz, ideal fnum at that block %.2f (family %s)",
                                        kind, s.ch, s.key, s.tone, s.noteOffset, bend[s.ch], rangeMsb[s.ch], rangeLsb[s.ch], pn, fIdeal, w.chan, w.block, w.fnum, hz(w), idealFnum(pn, w.block), family ? "OPNA" : "OPN2");
                run.fail("pitch-out-of-tune", std::string(kind) + (family ? ".opna" : ".opn2"), buf); return false;
            }
            if(w.haveDtfm && memcmp(w.dtfm, s.dtfm, 4) != 0)
            { run.fail("multiplier-changed-in-native-range", kind, "detune/multiple bytes written with the frequency differ from the instrument's inside the native range (p=" + std::to_string(pn) + ")"); return false; }
            return true;
        };
        auto rangeSemis = [&](int c, bool alt) { return (double)rangeMsb[c] + (double)rangeLsb[c] / (alt ? 100.0 : 128.0); };
        auto pitchOf = [&](const Sounding &s, bool alt) { return s.tone + (double)s.noteOffset + ((double)bend[s.ch] / 8192.0) * rangeSemis(s.ch, alt); };
        auto judgeBoth = [&](const Write &w, const Sounding &s, double extraLo, double extraHi, const char *kind) -> bool
        {
            // RPN-0 LSB: cents (/100) by the MIDI spec, /128 in this implementation; both readings are accepted
            double a = pitchOf(s, false), b = pitchOf(s, true); double lo = std::min(a, b), hi = std::max(a, b);
            return judge(w, s, lo, extraLo, extraHi + (hi - lo), kind);
        };

        for(size_t i = 0; i < p.ops.size() && !run.failed(); ++i)
        {
            const Op &o = p.ops[i];
            noteOp((int)i, o.kind);
            int ch = (int)o.a[0] & 15;
            g_tap.recs.clear();
            switch(o.kind)
            {
            case F_NOTE_ON:
            {
                int key = (int)o.a[1] & 127; bool drum = ch == 9;
                if((int)byChan.size() >= nChan - 1) break; // keep a free chip channel: no stealing in this check
                // one instance per (ch,key): a re-strike ends the old one
                for(std::map<unsigned, Sounding>::iterator it = byChan.begin(); it != byChan.end();) if(it->second.ch == ch && it->second.key == key) byChan.erase(it++); else ++it;
                const GenIns &in = drum ? gw.perc[0].ins[key] : gw.mel[0].ins[patch[ch]];
                int ret = opn2_rt_noteOn(dev, (OPN2_UInt8)ch, (OPN2_UInt8)key, (OPN2_UInt8)o.a[2]);
                if(ret != 1) { run.fail("playable-note-rejected", fName(o.kind), "note-on returned " + std::to_string(ret)); break; }
                std::vector<Write> ws = decode(synth);
                if(ws.empty()) { run.fail("note-on-without-frequency-write", fName(o.kind), "no A4/A0 write during an accepted note-on"); break; }
                const Write &w = ws.back();
                Sounding s; s.ch = ch; s.key = key; s.drum = drum; s.noteOffset = in.noteOffset; s.prog = drum ? key : patch[ch]; s.keyDown = true; s.gliding = false; s.glideFrom = 0; s.lingering = -1;
                s.tone = drum ? (in.percKey ? (in.percKey >= 128 ? in.percKey - 128 : in.percKey) : key) : key;
                for(int l = 0; l < 4; ++l) s.dtfm[l] = in.ops[l][0];
                byChan[w.chan] = s;
                double vslack = vib[ch] ? 0.55 : 0.0;
                if(!judgeBoth(w, s, vslack, vslack, "note-on")) break;
                if(!vib[ch] && rangeLsb[ch] == 0) mono[drum][s.prog].push_back(std::make_pair(pitchOf(s, false), hz(w)));
                break;
            }
            case F_NOTE_OFF:
            {
                if(byChan.empty()) break;
                std::map<unsigned, Sounding>::iterator it = byChan.begin(); std::advance(it, (long)((uint64_t)o.a[1] % byChan.size()));
                opn2_rt_noteOff(dev, (OPN2_UInt8)it->second.ch, (OPN2_UInt8)it->second.key);
                if(it->second.lingering >= 0) break;
                if(it->second.drum) { it->second.keyDown = false; it->second.lingering = 0; }   // keeps its channel until 30 ms have passed
                else if(pedal[it->second.ch]) it->second.keyDown = false; else byChan.erase(it);
                break;
            }
            case F_BEND:
            {
                bend[ch] = (int)o.a[1] - 8192;
                opn2_rt_pitchBend(dev, (OPN2_UInt8)ch, (OPN2_UInt16)o.a[1]);
                std::vector<Write> ws = decode(synth); std::set<unsigned> written;
                for(size_t k = 0; k < ws.size() && !run.failed(); ++k)
                {
                    std::map<unsigned, Sounding>::iterator it = byChan.find(ws[k].chan);
                    if(it == byChan.end()) continue;
                    if(!it->second.keyDown) { continue; } // a pedal-held note may or may not follow the wheel: not stated
                    written.insert(ws[k].chan);
                    double vslack = vib[ch] ? 0.55 : 0.0;
                    judgeBoth(ws[k], it->second, vslack, vslack, "bend"); run.count("bend_repitch");
                }
                for(std::map<unsigned, Sounding>::iterator it = byChan.begin(); it != byChan.end() && !run.failed(); ++it)
                {
                    if(it->second.ch != ch) continue;
                    if(!it->second.keyDown) { run.count("pedal_held_not_required"); continue; }
                    if(!written.count(it->first)) run.fail("bend-did-not-repitch-sounding-note", "bend", "pitch bend on MIDI channel " + std::to_string(ch) + " wrote no new frequency for its key-down note " + std::to_string(it->second.key) + " on chip channel " + std::to_string(it->first));
                }
                break;
            }
            case F_RANGE:
                rangeMsb[ch] = (int)o.a[1]; rangeLsb[ch] = (int)o.a[2];
                if(o.a[3] & 2) { opn2_rt_controllerChange(dev, (OPN2_UInt8)ch, 99, 1); opn2_rt_controllerChange(dev, (OPN2_UInt8)ch, 98, 8); }   // an NRPN selected before
                if(o.a[3] & 1) { opn2_rt_controllerChange(dev, (OPN2_UInt8)ch, 100, 0); opn2_rt_controllerChange(dev, (OPN2_UInt8)ch, 101, 0); }  // RPN 0, LSB first
                else { opn2_rt_controllerChange(dev, (OPN2_UInt8)ch, 101, 0); opn2_rt_controllerChange(dev, (OPN2_UInt8)ch, 100, 0); }
                opn2_rt_controllerChange(dev, (OPN2_UInt8)ch, 6, (OPN2_UInt8)o.a[1]); opn2_rt_controllerChange(dev, (OPN2_UInt8)ch, 38, (OPN2_UInt8)o.a[2]);
                break;
            case F_PATCH: patch[ch] = (int)o.a[1] & 127; opn2_rt_patchChange(dev, (OPN2_UInt8)ch, (OPN2_UInt8)patch[ch]); break;
            case F_VIBRATO:
                vib[ch] = (int)o.a[1];
                if(o.a[2]) opn2_rt_channelAfterTouch(dev, (OPN2_UInt8)ch, (OPN2_UInt8)o.a[1]); else opn2_rt_controllerChange(dev, (OPN2_UInt8)ch, 1, (OPN2_UInt8)o.a[1]);
                if(!o.a[2]) opn2_rt_channelAfterTouch(dev, (OPN2_UInt8)ch, 0); else opn2_rt_controllerChange(dev, (OPN2_UInt8)ch, 1, 0);
                break;
            case F_PEDAL:
                pedal[ch] = o.a[1] >= 64; opn2_rt_controllerChange(dev, (OPN2_UInt8)ch, 64, (OPN2_UInt8)o.a[1]);
                if(!pedal[ch]) for(std::map<unsigned, Sounding>::iterator it = byChan.begin(); it != byChan.end();) if(it->second.ch == ch && !it->second.keyDown && !(it->second.lingering >= 0 && it->second.lingering <= 0.0301)) byChan.erase(it++); else ++it;
                break;
            case F_TICK:
            {
                opn2_tickEvents(dev, o.d, 0.0); run.simSeconds += o.d;
                for(std::map<unsigned, Sounding>::iterator it = byChan.begin(); it != byChan.end();) { if(it->second.lingering >= 0) { it->second.lingering += o.d; if(it->second.lingering > 0.0301 && !pedal[it->second.ch]) { byChan.erase(it++); continue; } } ++it; }
                // vibrato re-pitches sounding notes while time passes: every write stays within the vibrato depth of the base pitch
                std::vector<Write> ws = decode(synth);
                for(size_t k = 0; k < ws.size() && !run.failed(); ++k)
                {
                    std::map<unsigned, Sounding>::iterator it = byChan.find(ws[k].chan); if(it == byChan.end() || !it->second.keyDown) continue;
                    if(!vib[it->second.ch]) { run.fail("repitch-without-cause", "tick", "a frequency write on chip channel " + std::to_string(ws[k].chan) + " during a time advance although the channel has neither vibrato nor portamento"); break; }
                    judgeBoth(ws[k], it->second, 0.55, 0.55, "vibrato"); run.count("vibrato_write");
                }
                break;
            }
            case F_GLIDE_PAIR:
            {
                // portamento on, note A then note B on a silent channel: B starts at A's pitch and ends at its own
                if(ch == 9 || (int)byChan.size() >= nChan - 2 || vib[ch]) break;
                bool busy = false; for(std::map<unsigned, Sounding>::iterator it = byChan.begin(); it != byChan.end(); ++it) if(it->second.ch == ch) busy = true;
                if(busy || pedal[ch]) break;
                int ka = (int)o.a[1], kb = (int)o.a[2]; if(ka == kb) kb = ka + 1;
                const GenIns &in = gw.mel[0].ins[patch[ch]];
                opn2_rt_controllerChange(dev, (OPN2_UInt8)ch, 5, (OPN2_UInt8)o.a[3]); opn2_rt_controllerChange(dev, (OPN2_UInt8)ch, 65, 127);
                opn2_rt_noteOn(dev, (OPN2_UInt8)ch, (OPN2_UInt8)ka, 100); opn2_rt_noteOff(dev, (OPN2_UInt8)ch, (OPN2_UInt8)ka);
                g_tap.recs.clear();
                if(opn2_rt_noteOn(dev, (OPN2_UInt8)ch, (OPN2_UInt8)kb, 100) != 1) { run.fail("playable-note-rejected", fName(o.kind), "glide target rejected"); break; }
                std::vector<Write> ws = decode(synth);
                if(ws.empty()) { run.fail("note-on-without-frequency-write", fName(o.kind), ""); break; }
                Sounding s; s.ch = ch; s.key = kb; s.drum = false; s.noteOffset = in.noteOffset; s.prog = patch[ch]; s.keyDown = true; s.gliding = true; s.glideFrom = ka; s.lingering = -1; for(int l = 0; l < 4; ++l) s.dtfm[l] = in.ops[l][0];
                s.tone = ka; if(!judgeBoth(ws.back(), s, 0, 0, "glide-start")) break;
                unsigned cchan = ws.back().chan;
                // let it arrive: slowest rate is ~1.4 semitones/s
                Write last = ws.back(); double need = std::fabs((double)kb - (double)ka) / (350.0 * std::pow(2.0, -0.062 * (1.0 / 128) * (double)(o.a[3] << 7))) + 0.5;
                for(std::map<unsigned, Sounding>::iterator it = byChan.begin(); it != byChan.end();) if(it->second.lingering >= 0 && !pedal[it->second.ch]) byChan.erase(it++); else ++it;
                for(double t = 0; t < need; t += 0.25) { g_tap.recs.clear(); opn2_tickEvents(dev, 0.25, 0.0); run.simSeconds += 0.25; std::vector<Write> w2 = decode(synth); for(size_t k = 0; k < w2.size(); ++k) if(w2[k].chan == cchan) last = w2[k]; }
                s.tone = kb; if(!judgeBoth(last, s, 0, 0, "glide-end")) break;
                run.count("glide_endpoints");
                opn2_rt_controllerChange(dev, (OPN2_UInt8)ch, 65, 0);
                opn2_rt_noteOff(dev, (OPN2_UInt8)ch, (OPN2_UInt8)kb);
                break;
            }
            }
        }
        // monotone in p for one instrument
        for(int d = 0; d < 2 && !run.failed(); ++d) for(int q = 0; q < 128 && !run.failed(); ++q)
        {
            std::vector<std::pair<double, double> > &v = mono[d][q]; std::sort(v.begin(), v.end());
            for(size_t k = 1; k < v.size(); ++k) if(v[k].first > v[k - 1].first + 1e-9 && v[k].second + 1e-9 < v[k - 1].second && v[k].first < 115.0)
            { run.fail("pitch-not-monotone", family ? "opna" : "opn2", "instrument " + std::to_string(q) + ": p=" + std::to_string(v[k - 1].first) + " programmed " + std::to_string(v[k - 1].second) + " Hz but the higher p=" + std::to_string(v[k].first) + " only " + std::to_string(v[k].second) + " Hz"); break; }
        }
        opn2_close(dev);
        tapInstall(false);
    }
};

int main(int argc, char **argv)
{
    C10 c;
    return driverMain(c, argc, argv);
}
