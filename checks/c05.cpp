// C05 — a note sounds exactly while its key, the pedal or sostenuto holds it.
// Workload: interleavings of note-on/off (vel 0 and >0), CC64/66 around 63/64, CC120/121/123, panic,
// rt_resetState, program changes (incl. to blank instruments), melodic channels and channel 9, time advance
// in scheduler-chosen slices. The executor keeps polyphony below the channel count (the property's
// precondition) by consulting the model, so every subsequence of a plan is again a valid plan.
// Oracle: RefMidiState (written from the MIDI rules in the property text) predicts the sounding set after
// every call; S_impl = {(MidCh,note) of users of chip channels whose last 0x28 write was key-on}.
// Epilogue on every run (faults/inputs stopped): release all keys and pedals, render 30 ms (+2 frames) of
// audio in arbitrary request sizes, then no chip channel may be keyed on (bounded liveness).
#include "../sim/snapshot.hpp"
#include "../sim/songgen.hpp"

using namespace sim;

enum { X_NOTE_ON = 0, X_NOTE_OFF, X_CC, X_PANIC, X_RESET_STATE, X_PATCH, X_TICK, X_GENERATE, X_COUNT };
static const char *xName(int k)
{
    static const char *n[] = { "noteOn", "noteOff", "cc", "panic", "rt_resetState", "patchChange", "tickEvents", "generate" };
    return k >= 0 && k < X_COUNT ? n[k] : "?";
}

struct KeyModel
{
    bool down, latched, pendingOff;
    bool heldPedal, heldSost;
    double ttl;
    int heldCopies;
    KeyModel() : down(false), latched(false), pendingOff(false), heldPedal(false), heldSost(false), ttl(0), heldCopies(0) {}
    bool sounding() const { return down || heldPedal || heldSost; }
};

struct RefMidiState
{
    bool pedal[16];
    int patch[16];
    std::map<int, KeyModel> keys; // key = ch<<8 | note
    RefMidiState() { for(int i = 0; i < 16; ++i) { pedal[i] = false; patch[i] = 0; } }
    KeyModel &k(int ch, int note) { return keys[(ch << 8) | note]; }
    void release(int ch, KeyModel &m)
    {
        if(!m.down) return;
        m.down = false; m.pendingOff = false; m.ttl = 0;
        if(pedal[ch]) { m.heldPedal = true; }
        if(m.latched) { m.heldSost = true; }
        if(m.heldPedal || m.heldSost) m.heldCopies++;
        m.latched = false;
    }
    void endHeld(KeyModel &m, bool ped, bool sost)
    {
        if(ped) m.heldPedal = false;
        if(sost) m.heldSost = false;
        if(!m.heldPedal && !m.heldSost) m.heldCopies = 0;
    }
    int occupancy() const
    {
        int n = 0;
        for(std::map<int, KeyModel>::const_iterator it = keys.begin(); it != keys.end(); ++it) n += (it->second.down ? 1 : 0) + it->second.heldCopies;
        return n;
    }
    std::set<int> soundingSet() const
    {
        std::set<int> s;
        for(std::map<int, KeyModel>::const_iterator it = keys.begin(); it != keys.end(); ++it) if(it->second.sounding()) s.insert(it->first);
        return s;
    }
    void noteOn(int ch, int note, bool blank, bool drum)
    {
        KeyModel &m = k(ch, note);
        release(ch, m);                 // a key struck again ends its previous sounding first (unless held)
        if(blank) return;               // rejected: nothing starts
        m.down = true; m.latched = false; m.pendingOff = false; m.ttl = drum ? 0.03 : 0.0;
    }
    void noteOff(int ch, int note)
    {
        KeyModel &m = k(ch, note);
        if(!m.down) return;
        if(m.ttl > 0) m.pendingOff = true;  // percussion keeps sounding for its minimum life time
        else release(ch, m);
    }
    void allNotesOff(int ch)
    {
        for(std::map<int, KeyModel>::iterator it = keys.begin(); it != keys.end(); ++it) if((it->first >> 8) == ch) release(ch, it->second);
    }
    void cc(int ch, int type, int val)
    {
        switch(type)
        {
        case 64:
            pedal[ch] = val >= 64;
            if(!pedal[ch]) for(std::map<int, KeyModel>::iterator it = keys.begin(); it != keys.end(); ++it) if((it->first >> 8) == ch) endHeld(it->second, true, false);
            break;
        case 66:
            if(val >= 64) { for(std::map<int, KeyModel>::iterator it = keys.begin(); it != keys.end(); ++it) if((it->first >> 8) == ch && it->second.down && !it->second.pendingOff) it->second.latched = true; }
            else for(std::map<int, KeyModel>::iterator it = keys.begin(); it != keys.end(); ++it) if((it->first >> 8) == ch) { it->second.latched = false; endHeld(it->second, false, true); }
            break;
        case 120: case 123: allNotesOff(ch); break;
        case 121:
            pedal[ch] = false;
            for(std::map<int, KeyModel>::iterator it = keys.begin(); it != keys.end(); ++it) if((it->first >> 8) == ch) { it->second.latched = false; endHeld(it->second, true, true); }
            break;
        default: break;
        }
    }
    void panic()
    {
        for(std::map<int, KeyModel>::iterator it = keys.begin(); it != keys.end(); ++it)
        {
            int ch = it->first >> 8; KeyModel &m = it->second;
            if(m.down) { if(m.ttl > 0) m.pendingOff = true; else release(ch, m); }
        }
        for(std::map<int, KeyModel>::iterator it = keys.begin(); it != keys.end(); ++it) { it->second.latched = false; endHeld(it->second, true, true); }
    }
    void resetState()
    {
        for(int c = 0; c < 16; ++c) pedal[c] = false;
        for(std::map<int, KeyModel>::iterator it = keys.begin(); it != keys.end(); ++it)
        {
            KeyModel &m = it->second; int ch = it->first >> 8;
            m.latched = false; release(ch, m); endHeld(m, true, true);
        }
    }
    void advance(double s)
    {
        for(std::map<int, KeyModel>::iterator it = keys.begin(); it != keys.end(); ++it)
        {
            KeyModel &m = it->second;
            if(m.ttl <= 0) continue;
            m.ttl = m.ttl - s;
            if(m.ttl <= 0) { m.ttl = 0; if(m.pendingOff) release(it->first >> 8, m); }
        }
    }
};

class C05 : public Check
{
public:
    const char *id() { return "C05"; }
    const char *opName(int k) { return xName(k); }
    int quickRuns() { return 60000; }
    int quickSeconds() { return 90; }
    int thoroughSeconds() { return 900; }
    const char *rule()
    {
        return "each run = seeded history of 20..300 note/pedal/sostenuto/CC120-123/panic/reset-state/program/time-advance calls on 2-3 MIDI channels (incl. 9) x 4-6 keys, 1-2 chips, then the release+30ms epilogue; "
               "model vs implementation sounding set compared after every call; distinct = distinct (down, pedal-held, sostenuto-held, pending-drum-off) vectors over the key universe x pedal bits";
    }
    std::vector<std::string> realComponents() { return { "OPNMIDIplay note/pedal logic, voice allocator, OPN2 register layer, Gens/MAME core for the epilogue audio" }; }
    std::vector<std::string> stubComponents() { return { "none" }; }
    std::vector<std::string> requiredProbes() { return { "sostenuto_released_key_down", "restrike_while_pedal_held", "cc121_with_held", "drum_off_inside_30ms", "blank_noteon", "resetstate_with_held", "panic_with_pedal" }; }
    std::vector<std::string> assumptions() { return { "auto-arpeggio off; polyphony kept below the channel count (executor skips note-ons that would exceed it); epilogue renders 30 ms + 2 frames so floating-point summation of period lengths cannot land short of 30 ms" }; }

    void generate(Rng &r, Plan &p, bool thorough)
    {
        p.cfg["rate"] = r.pick<int>({ 8000, 22050, 44100, 48000, 53267 });
        p.cfg["bankseed"] = (int64_t)r.below(300);
        p.cfg["chips"] = (int64_t)r.range(1, 2);
        p.cfg["emu"] = r.pick<int>({ 2, 2, 0, 4 });
        int c0 = (int)r.below(9), c1 = (int)r.range(10, 15);
        p.cfg["c0"] = c0; p.cfg["c1"] = c1;
        std::vector<int> chans = { c0, 9, 9 }; if(r.chance(0.5)) chans.push_back(c1);
        std::vector<int> keys; int nk = (int)r.range(4, 6); for(int i = 0; i < nk; ++i) keys.push_back((int)r.range(35, 80));
        int len = (int)(r.chance(0.75) ? r.range(20, 100) : r.range(100, thorough ? 300 : 200));
        for(int i = 0; i < len; ++i)
        {
            Op o; o.kind = (int)r.weighted({ 34, 22, 24, 2, 2, 4, 12, 2 });
            int ch = chans[r.below(chans.size())], key = keys[r.below(keys.size())];
            switch(o.kind)
            {
            case X_NOTE_ON: o.a[0] = ch; o.a[1] = key; o.a[2] = r.chance(0.88) ? (int64_t)r.range(1, 127) : 0; break;
            case X_NOTE_OFF: o.a[0] = ch; o.a[1] = key; break;
            case X_CC: o.a[0] = ch; o.a[1] = r.pick<int>({ 64, 64, 64, 66, 66, 66, 120, 121, 123, 7, 11 }); o.a[2] = r.pick<int>({ 0, 0, 63, 64, 127, 127 }); break;
            case X_PATCH: o.a[0] = ch; o.a[1] = (int64_t)r.below(16); break;
            case X_TICK: o.d = r.pick<double>({ 0.0, 0.001, 0.005, 0.01, 0.015, 0.02, 0.029, 0.03, 0.031, 0.05, 0.2, 2.0 }); break;
            case X_GENERATE: o.a[0] = r.pick<int>({ 2, 64, 512, 1024, 2048 }); break;
            default: break;
            }
            p.ops.push_back(o);
        }
    }

    static std::set<int> implSounding(OPN2_MIDIPlayer *dev, const KeyState &ks)
    {
        std::set<int> s;
        std::vector<OPNMIDIplay::OpnChannel> &cc = Acc::chipChannels(Acc::P(dev));
        for(size_t c = 0; c < cc.size(); ++c)
        {
            if(!(c < ks.on.size() && ks.on[c])) continue;
            for(OPNMIDIplay::OpnChannel::users_iterator j = cc[c].users.begin(); !j.is_end(); ++j) s.insert(((int)j->value.loc.MidCh << 8) | j->value.loc.note);
        }
        return s;
    }
    static std::string setStr(const std::set<int> &s)
    {
        std::ostringstream o; o << "{";
        for(std::set<int>::const_iterator it = s.begin(); it != s.end(); ++it) o << (it == s.begin() ? "" : " ") << (*it >> 8) << ":" << (*it & 255);
        o << "}"; return o.str();
    }

    void execute(const Plan &p, Run &run)
    {
        SimFsScope fs; g_fs.reset();
        tapInstall(true);
        long rate = (long)p.get("rate", 44100);
        uint64_t bs = (uint64_t)p.get("bankseed");
        Rng br(mix64(bs, 0xBA4C)); BankGenOpts bo; bo.nMel = 1; bo.nPerc = 1; bo.blankProb = 0.25;
        GenWopn gw = genWopn(br, bo);
        std::vector<uint8_t> img = writeWopn(gw);
        OPN2_MIDIPlayer *dev = opn2_init(rate);
        opn2_openBankData(dev, img.data(), (long)img.size());
        opn2_switchEmulator(dev, (int)p.get("emu", 2));
        opn2_setNumChips(dev, (int)p.get("chips", 1));
        opn2_setAutoArpeggio(dev, 0);
        OPNMIDIplay *pl = Acc::P(dev);
        const int nChan = (int)p.get("chips", 1) * 6;
        RefMidiState model;
        TapCursor cur;
        cur.consume(pl->m_synth.get()); g_tap.recs.clear(); cur.next = 0;
        for(size_t i = 0; i < p.ops.size() && !run.failed(); ++i)
        {
            const Op &o = p.ops[i];
            noteOp((int)i, o.kind);
            int ch = (int)o.a[0] & 15, key = (int)o.a[1] & 127;
            switch(o.kind)
            {
            case X_NOTE_ON:
            {
                int vel = (int)o.a[2] & 127;
                if(vel == 0) { opn2_rt_noteOn(dev, (OPN2_UInt8)ch, (OPN2_UInt8)key, 0); model.noteOff(ch, key); break; }
                if(model.occupancy() + 1 > nChan - 1) { run.count("noteon_skipped_polyphony"); continue; }
                bool drum = (ch == 9);
                bool blank = drum ? gw.perc[0].ins[key].blank : gw.mel[0].ins[model.patch[ch]].blank;
                KeyModel &km = model.k(ch, key);
                if(km.heldPedal || km.heldSost) run.count("restrike_while_pedal_held");
                if(blank) run.count("blank_noteon");
                int ret = opn2_rt_noteOn(dev, (OPN2_UInt8)ch, (OPN2_UInt8)key, (OPN2_UInt8)vel);
                model.noteOn(ch, key, blank, drum);
                if((ret != 0) != !blank) run.fail("noteon-return", xName(o.kind), std::string("opn2_rt_noteOn returned ") + std::to_string(ret) + " for a " + (blank ? "blank" : "playable") + " instrument");
                break;
            }
            case X_NOTE_OFF:
                if(model.k(ch, key).down && model.k(ch, key).ttl > 0) run.count("drum_off_inside_30ms");
                opn2_rt_noteOff(dev, (OPN2_UInt8)ch, (OPN2_UInt8)key); model.noteOff(ch, key); break;
            case X_CC:
            {
                int type = (int)o.a[1], val = (int)o.a[2] & 127;
                if(type == 66 && val < 64) for(std::map<int, KeyModel>::iterator it = model.keys.begin(); it != model.keys.end(); ++it) if((it->first >> 8) == ch && it->second.down && it->second.latched) run.count("sostenuto_released_key_down");
                if(type == 121) for(std::map<int, KeyModel>::iterator it = model.keys.begin(); it != model.keys.end(); ++it) if((it->first >> 8) == ch && (it->second.heldPedal || it->second.heldSost)) run.count("cc121_with_held");
                opn2_rt_controllerChange(dev, (OPN2_UInt8)ch, (OPN2_UInt8)type, (OPN2_UInt8)val); model.cc(ch, type, val); break;
            }
            case X_PANIC:
                for(int c = 0; c < 16; ++c) if(model.pedal[c]) { run.count("panic_with_pedal"); break; }
                opn2_panic(dev); model.panic(); break;
            case X_RESET_STATE:
                for(std::map<int, KeyModel>::iterator it = model.keys.begin(); it != model.keys.end(); ++it) if(it->second.heldPedal || it->second.heldSost) { run.count("resetstate_with_held"); break; }
                opn2_rt_resetState(dev); model.resetState(); break;
            case X_PATCH: opn2_rt_patchChange(dev, (OPN2_UInt8)ch, (OPN2_UInt8)(o.a[1] & 127)); model.patch[ch] = (int)(o.a[1] & 127); break;
            case X_TICK: opn2_tickEvents(dev, o.d, 0.0); model.advance(o.d); run.simSeconds += o.d; break;
            case X_GENERATE:
            {
                // time passes inside the call in period-sized pieces; only used when no percussion minimum-life-time
                // countdown is pending, so the model needs no knowledge of the slicing
                bool pending = false;
                for(std::map<int, KeyModel>::iterator it = model.keys.begin(); it != model.keys.end(); ++it) if(it->second.ttl > 0) pending = true;
                if(pending) continue;
                int n = (int)o.a[0]; std::vector<short> buf((size_t)n);
                opn2_generate(dev, n, buf.data()); run.simSeconds += (double)(n / 2) / (double)rate;
                break;
            }
            default: continue;
            }
            cur.consume(pl->m_synth.get()); g_tap.recs.clear(); cur.next = 0;
            std::set<int> si = implSounding(dev, cur.keys), sm = model.soundingSet();
            if(si != sm)
            {
                std::string tag = "sounding-set-mismatch";
                std::set<int> extra, missing;
                for(std::set<int>::iterator it = si.begin(); it != si.end(); ++it) if(!sm.count(*it)) extra.insert(*it);
                for(std::set<int>::iterator it = sm.begin(); it != sm.end(); ++it) if(!si.count(*it)) missing.insert(*it);
                tag = !extra.empty() ? "stuck-or-extra-note" : "note-cut";
                run.fail(tag, xName(o.kind) + (o.kind == X_CC ? std::to_string(o.a[1]) : std::string("")), "after op " + std::to_string(i) + " " + xName(o.kind) + ": impl " + setStr(si) + " model " + setStr(sm));
                break;
            }
            // reach: abstract state vector
            Hasher h;
            for(std::map<int, KeyModel>::iterator it = model.keys.begin(); it != model.keys.end(); ++it)
                h.add((uint64_t)((it->first >> 8) == 9) | ((uint64_t)it->second.down << 1) | ((uint64_t)it->second.heldPedal << 2) | ((uint64_t)it->second.heldSost << 3) | ((uint64_t)it->second.pendingOff << 4) | ((uint64_t)it->second.latched << 5));
            for(int c = 0; c < 16; ++c) h.add(model.pedal[c]);
            run.state(h.h);
            run.log.add(h.h); run.log.add(si.size());
        }
        // ---- epilogue: bounded liveness. Release every key and pedal, render 30 ms (+2 frames), nothing keyed on.
        if(!run.failed())
        {
            noteOp((int)p.ops.size(), X_GENERATE);
            for(int c = 0; c < 16; ++c) { opn2_rt_controllerChange(dev, (OPN2_UInt8)c, 64, 0); opn2_rt_controllerChange(dev, (OPN2_UInt8)c, 66, 0); }
            for(std::map<int, KeyModel>::iterator it = model.keys.begin(); it != model.keys.end(); ++it) opn2_rt_noteOff(dev, (OPN2_UInt8)(it->first >> 8), (OPN2_UInt8)(it->first & 255));
            Rng er(mix64(p.seed, 0xE9110));
            long need = (long)std::ceil(0.03 * (double)rate) + 2;
            while(need > 0)
            {
                long fr = (long)er.pick<int>({ 1, 7, 64, 511, 512, 513, 2000 }); if(fr > need) fr = need;
                std::vector<short> buf((size_t)fr * 2);
                opn2_generate(dev, (int)fr * 2, buf.data());
                need -= fr;
            }
            run.simSeconds += 0.03;
            cur.consume(pl->m_synth.get()); g_tap.recs.clear(); cur.next = 0;
            size_t on = 0; for(size_t c = 0; c < cur.keys.on.size(); ++c) on += cur.keys.on[c];
            std::set<int> si = implSounding(dev, cur.keys);
            if(on) run.fail("stuck-note-after-release", "epilogue", "after releasing every key and pedal and rendering 30 ms, " + std::to_string(on) + " chip channel(s) still keyed on; users " + setStr(si));
        }
        opn2_close(dev);
        tapInstall(false);
    }

    void shrinkOp(const Op &o, std::vector<Op> &out)
    {
        if(o.kind == X_TICK && o.d > 0.031) { Op x = o; x.d = 0.031; out.push_back(x); }
        if(o.kind == X_NOTE_ON && o.a[2] != 100 && o.a[2] != 0) { Op x = o; x.a[2] = 100; out.push_back(x); }
        if(o.kind == X_CC && o.a[2] != 0 && o.a[2] != 127) { Op x = o; x.a[2] = o.a[2] >= 64 ? 127 : 0; out.push_back(x); }
    }
};

int main(int argc, char **argv)
{
    C05 c;
    return driverMain(c, argc, argv);
}
