// C03 — any sequence of API calls on a live instance is memory-safe and terminates.
// Workload: the whole exported surface as plan ops with boundary-class arguments, all nine emulator
// ids, chip counts 1..100, rates 8k..192k. Oracle: sanitizer/termination oracle (ASan, -fsanitize=bounds
// on the core TUs, abort/terminate handlers, CPU watchdog) + "calls documented to fail return an error".
#include "../sim/apiops.hpp"
#include "../sim/songgen.hpp"

using namespace sim;

struct CostModel
{
    int emu, chips; long rate; double spent;
    CostModel() : emu(0), chips(2), rate(44100), spent(0) {}
    static double factor(int e)
    {
        switch(e) { case 1: case 8: return 30; case 0: return 2; case 2: return 1; case 3: return 3.5; case 4: return 1.2; case 5: return 4; case 6: return 6.5; case 7: return 0.1; default: return 2; }
    }
    double perFrame() const { return (double)chips * factor(emu) * (53267.0 / (double)rate > 1.0 ? 53267.0 / (double)rate : 1.0); }
};

class C03 : public Check
{
public:
    const char *id() { return "C03"; }
    const char *opName(int k) { return apiOpName(k); }
    int quickRuns() { return 9000; }
    int quickSeconds() { return 90; }
    int thoroughSeconds() { return 900; }
    int cpuBudgetSec() { return 20; }
    const char *rule()
    {
        return "each run = one seeded plan of 10..400 public API calls (boundary-class arguments, one of 9 emulator ids, chips 1..100, rate 8k..192k) executed against the real library under ASan+bounds; "
               "distinct = distinct (op kind, argument class, emulator, chips bucket, bank/song loaded) tuples executed";
    }
    std::vector<std::string> realComponents() { return { "all of libOPNMIDI (player, sequencer, WOPN loader, 8 emulator cores, VGM dumper)" }; }
    std::vector<std::string> stubComponents() { return { "libc stdio replaced by SimFS (in-memory files) via --wrap" }; }
    std::vector<std::string> assumptions() { return { "buffers passed are exactly as large as the request implies; OPN2_Bank handles used are live (not removed / not from before a bank reload)" }; }

    void generate(Rng &r, Plan &p, bool thorough)
    {
        CostModel cm;
        cm.rate = clsRate(r);
        p.cfg["rate"] = cm.rate;
        p.cfg["bankseed"] = (int64_t)r.below(1000);
        p.cfg["songseed"] = (int64_t)r.below(1000);
        int len = (int)(r.chance(0.7) ? r.range(10, 80) : r.range(80, thorough ? 400 : 200));
        double budget = 60000.0 * (thorough ? 3 : 1); // cost units per run
        p.ops.push_back(Op(A_INIT, cm.rate));
        if(r.chance(0.9)) p.ops.push_back(Op(A_OPEN_BANK_DATA, 0));
        if(r.chance(0.6)) { int e = (int)r.below(9); p.ops.push_back(Op(A_SWITCH_EMULATOR, e)); cm.emu = e; }
        if(r.chance(0.5)) { int c = r.chance(0.85) ? (int)r.range(1, 8) : (int)r.range(9, 100); p.ops.push_back(Op(A_SET_NUM_CHIPS, c)); cm.chips = c; if(cm.emu == 7 && cm.chips > 2) cm.chips = 2; }
        if(r.chance(0.5)) p.ops.push_back(Op(A_SET_HOOKS, (int64_t)r.below(32)));
        if(r.chance(0.4)) p.ops.push_back(Op(A_OPEN_DATA, 0));
        static const std::vector<int> weights = []{
            std::vector<int> w(A_COUNT, 2);
            w[A_INIT] = 1; w[A_CLOSE] = 1; w[A_NOTE_ON] = 14; w[A_NOTE_OFF] = 6; w[A_CONTROLLER] = 10; w[A_PATCH] = 4; w[A_PITCH_BEND] = 4;
            w[A_GENERATE] = 5; w[A_PLAY] = 4; w[A_GENERATE_FORMAT] = 3; w[A_PLAY_FORMAT] = 3; w[A_TICK_EVENTS] = 6; w[A_SYSEX] = 3;
            w[A_OPEN_BANK_DATA] = 2; w[A_OPEN_DATA] = 2; w[A_OPEN_FILE] = 1; w[A_OPEN_BANK_FILE] = 1; w[A_GET_BANK] = 3; w[A_SET_INSTRUMENT] = 3;
            w[A_SWITCH_EMULATOR] = 2; w[A_SET_NUM_CHIPS] = 2; w[A_GETTERS] = 3; w[A_META] = 2; w[A_SEEK] = 2;
            return w; }();
        // "dense" histories (one in four): many notes on few channels (incl. the drum channel) and keys, short renders and frequent
        // chip-count / emulator / reset calls, so that voices are stolen, evacuated and re-created while notes are live
        const bool dense = r.chance(0.25);
        for(int i = 0; i < len; ++i)
        {
            if(dense && r.chance(0.25))
            {
                // chord burst (drum hit last, half of the time) -> a call that re-creates the chips -> time: notes that are
                // younger than their minimum life time, or sit on high chip channels, meet a smaller/new set of chips
                int k = (int)r.range(3, 22);
                for(int q = 0; q < k; ++q) { Op n(A_NOTE_ON, (int64_t)r.pick<int>({ 0, 1, 2 }), (int64_t)r.range(36, 60), (int64_t)r.range(40, 127)); n.inst = 0; p.ops.push_back(n); }
                if(r.chance(0.5)) { Op n(A_NOTE_ON, 9, (int64_t)r.range(35, 60), 110); n.inst = 0; p.ops.push_back(n); if(r.chance(0.5)) { Op f(A_NOTE_OFF, 9, n.a[1]); f.inst = 0; p.ops.push_back(f); } }
                Op c; c.inst = 0; c.kind = (int)r.pick<int>({ A_SET_NUM_CHIPS, A_SET_NUM_CHIPS, A_SET_NUM_CHIPS, A_SWITCH_EMULATOR, A_RESET, A_SET_CHIP_TYPE, A_OPEN_BANK_DATA, A_SET_RUN_AT_PCM_RATE });
                switch(c.kind) { case A_SET_NUM_CHIPS: c.a[0] = (int64_t)r.range(1, 4); cm.chips = (int)c.a[0]; if(cm.emu == 7 && cm.chips > 2) cm.chips = 2; break; case A_SWITCH_EMULATOR: c.a[0] = (int64_t)r.pick<int>({ 0, 2, 3, 4, 5, 6 }); cm.emu = (int)c.a[0]; break; case A_SET_CHIP_TYPE: case A_SET_RUN_AT_PCM_RATE: c.a[0] = (int64_t)r.below(2); break; default: break; }
                p.ops.push_back(c);
                Op t(A_TICK_EVENTS); t.inst = 0; t.d = r.pick<double>({ 0.0, 0.01, 0.04, 0.2 }); p.ops.push_back(t);
                i += k + 2; continue;
            }
            Op o; o.kind = (int)r.weighted(weights); o.inst = (int)r.below(4);
            if(dense && r.chance(0.7)) o.kind = (int)r.pick<int>({ A_NOTE_ON, A_NOTE_ON, A_NOTE_ON, A_NOTE_ON, A_NOTE_OFF, A_NOTE_OFF, A_SET_NUM_CHIPS, A_SET_NUM_CHIPS, A_GENERATE, A_GENERATE, A_TICK_EVENTS, A_RESET, A_SWITCH_EMULATOR, A_CONTROLLER, A_CONTROLLER, A_SET_CHIP_TYPE, A_PANIC, A_SET_AUTO_ARP });
            switch(o.kind)
            {
            case A_INIT: o.a[0] = clsRate(r); break;
            case A_SET_DEVICE_ID: o.a[0] = r.chance(0.3) ? (int64_t)r.pick<int>({ 0, 7, 7, 15 }) : (r.chance(0.6) ? (int64_t)r.below(17) : clsInt(r)); break;   // 7: the low nibble of the F7 terminator
            case A_SET_NUM_CHIPS:
                o.a[0] = r.chance(0.6) ? (int64_t)r.range(1, 8) : clsInt(r);
                if(o.a[0] >= 1 && o.a[0] <= 100) { cm.chips = (int)o.a[0]; if(cm.emu == 7 && cm.chips > 2) cm.chips = 2; }
                break;
            case A_RESERVE_BANKS: o.a[0] = (int64_t)r.pick<int>({ 0, 1, 2, 3, 4, 5, 8, 64, 300 }); break;
            case A_GET_BANK: o.a[0] = r.chance(0.9) ? (int64_t)r.below(2) : clsU8(r); o.a[1] = r.chance(0.8) ? (int64_t)r.pick<int>({ 0, 1, 2, 127 }) : clsU8(r);
                o.a[2] = r.chance(0.8) ? (int64_t)r.pick<int>({ 0, 1, 2, 127 }) : clsU8(r); o.a[3] = (int64_t)r.pick<int>({ 0, 0, 1, 3, 2, 4, 255 }); break;
            case A_GET_BANK_ID: case A_REMOVE_BANK: o.a[0] = (int64_t)r.below(8); break;
            case A_GET_INSTRUMENT: o.a[0] = (int64_t)r.below(8); o.a[1] = r.chance(0.8) ? (int64_t)r.below(128) : clsInt(r); break;
            case A_SET_INSTRUMENT: o.a[0] = (int64_t)r.below(8); o.a[1] = r.chance(0.85) ? (int64_t)r.below(128) : clsInt(r); o.a[2] = (int64_t)r.below(1u << 30); o.a[3] = r.chance(0.5); o.a[4] = r.chance(0.9) ? 0 : clsInt(r); break;
            case A_SET_LFO_ENABLED: case A_SET_LFO_FREQ: case A_SET_CHIP_TYPE: case A_SET_SCALE_MOD: case A_SET_FULL_BRIGHT: case A_SET_AUTO_ARP:
            case A_SET_LOOP_ENABLED: case A_SET_LOOP_COUNT: case A_SET_LOOP_HOOKS_ONLY: case A_SET_SOFT_PAN: case A_SET_LOG_VOLUMES:
            case A_SET_VOLUME_MODEL: case A_SET_CHAN_ALLOC: case A_SET_RUN_AT_PCM_RATE:
                o.a[0] = r.chance(0.6) ? (int64_t)r.range(-1, 6) : clsInt(r); break;
            case A_OPEN_BANK_DATA: case A_OPEN_BANK_FILE: o.a[0] = (int64_t)r.below(4); o.a[1] = r.chance(0.1); break;
            case A_SWITCH_EMULATOR: o.a[0] = r.chance(0.7) ? (int64_t)r.below(9) : clsInt(r); if(o.a[0] >= 0 && o.a[0] < 9) { cm.emu = (int)o.a[0]; if(cm.emu == 7 && cm.chips > 2) cm.chips = 2; } break;
            case A_OPEN_DATA: case A_OPEN_FILE: o.a[0] = (int64_t)r.below(4); o.a[1] = r.chance(0.1); break;
            case A_SELECT_SONG: o.a[0] = r.chance(0.5) ? (int64_t)r.range(-1, 4) : clsInt(r); break;
            case A_SEEK: o.d = r.chance(0.5) ? r.real(0, 6.0) : clsDouble(r); break;
            // tempo multipliers above 16 make the (legitimate) amount of sequencer work per rendered second explode
            // (looping songs replay thousands of times per call); that is cost, not non-termination, so they are excluded
            case A_SET_TEMPO: o.d = r.pick<double>({ -1.0, 0.0, 1e-9, 0.25, 0.5, 1.0, 2.0, 4.0, 16.0 }); break;
            case A_META: o.a[0] = r.chance(0.5) ? (int64_t)r.below(4) : (int64_t)r.pick<int64_t>({ -1, 1000, (int64_t)1 << 40 }); o.a[1] = r.chance(0.5) ? (int64_t)r.below(4) : (int64_t)r.pick<int64_t>({ -1, 1000, (int64_t)1 << 40 }); break;
            case A_PLAY: case A_GENERATE: case A_PLAY_FORMAT: case A_GENERATE_FORMAT:
            {
                int64_t n = r.chance(0.1) ? (int64_t)r.range(-4, 3) : clsSize(r);
                double remain = budget - cm.spent;
                int64_t maxN = (int64_t)(remain / cm.perFrame()) * 2;
                if(maxN < 2) maxN = 2;
                if(n > maxN) n = maxN;
                o.a[0] = n; if(n > 0) cm.spent += (double)(n / 2) * cm.perFrame();
                if(o.kind == A_PLAY_FORMAT || o.kind == A_GENERATE_FORMAT)
                {
                    o.a[1] = r.chance(0.9) ? (int64_t)r.below(10) : (int64_t)r.pick<int>({ -1, 10, 11, 255 });
                    o.a[2] = (int64_t)r.pick<int>({ 1, 2, 4, 8, 2, 4, 0, 3, 16 });
                    int64_t c = o.a[2] > 0 && o.a[2] <= 8 ? o.a[2] : 8;
                    o.a[3] = (int64_t)r.pick<int64_t>({ c, 2 * c, 2 * c + 3, 0, 1, 16 });
                    o.a[4] = r.chance(0.5);
                }
                break;
            }
            case A_TICK_EVENTS: o.d = clsDouble(r); if(o.d > 30) o.d = 30; o.a[0] = (int64_t)r.below(4); break;
            case A_SET_TRACK_OPTIONS: o.a[0] = r.chance(0.6) ? (int64_t)r.below(4) : (int64_t)r.pick<int64_t>({ -1, 16, 1000, (int64_t)1 << 40 }); o.a[1] = r.chance(0.8) ? (int64_t)r.below(4) : clsInt(r); break;
            case A_SET_CHANNEL_ENABLED: o.a[0] = r.chance(0.6) ? (int64_t)r.below(17) : (int64_t)r.pick<int64_t>({ -1, 16, 1000, (int64_t)1 << 40 }); o.a[1] = (int64_t)r.below(2); break;
            case A_NOTE_ON: o.a[0] = r.chance(0.85) ? (int64_t)r.below(16) : clsU8(r); o.a[1] = r.chance(0.8) ? (int64_t)r.range(20, 100) : clsU8(r); o.a[2] = r.chance(0.8) ? (int64_t)r.below(128) : clsU8(r); break;
            case A_NOTE_OFF: case A_CHAN_AFTERTOUCH: case A_PATCH: case A_BANK_LSB: case A_BANK_MSB:
                o.a[0] = r.chance(0.85) ? (int64_t)r.below(16) : clsU8(r); o.a[1] = r.chance(0.7) ? (int64_t)r.below(128) : clsU8(r); break;
            case A_NOTE_AFTERTOUCH: o.a[0] = r.chance(0.85) ? (int64_t)r.below(16) : clsU8(r); o.a[1] = clsU8(r); o.a[2] = clsU8(r); break;
            case A_CONTROLLER:
                o.a[0] = r.chance(0.85) ? (int64_t)r.below(16) : clsU8(r);
                o.a[1] = r.chance(0.8) ? (int64_t)r.pick<int>({ 0, 1, 5, 6, 7, 10, 11, 32, 37, 38, 64, 65, 66, 67, 74, 98, 99, 100, 101, 120, 121, 123 }) : clsU8(r);
                o.a[2] = r.chance(0.7) ? (int64_t)r.below(128) : clsU8(r); break;
            case A_PITCH_BEND: o.a[0] = r.chance(0.85) ? (int64_t)r.below(16) : clsU8(r); o.a[1] = (int64_t)r.pick<int>({ 0, 1, 8191, 8192, 8193, 16383, 16384, 65535 }); break;
            case A_PITCH_BEND_ML: o.a[0] = r.chance(0.85) ? (int64_t)r.below(16) : clsU8(r); o.a[1] = clsU8(r); o.a[2] = clsU8(r); break;
            case A_BANK_CHANGE: o.a[0] = r.chance(0.85) ? (int64_t)r.below(16) : clsU8(r); o.a[1] = (int64_t)r.pick<int>({ -32768, -1, 0, 1, 127, 128, 256, 0x7F00, 0x7E00, 32767 }); break;
            case A_SYSEX: o.blob = genSysEx(r); break;
            case A_SET_HOOKS: o.a[0] = (int64_t)r.below(32); break;
            case A_DESCRIBE_CHANNELS: o.a[0] = (int64_t)r.pick<int>({ 0, 1, 2, 6, 7, 12, 13, 64, 601, 1000 }); break;
            default: break;
            }
            if(dense)
            {
                if(o.kind == A_NOTE_ON || o.kind == A_NOTE_OFF) { o.inst = 0; o.a[0] = (int64_t)r.pick<int>({ 0, 1, 9, 9 }); o.a[1] = (int64_t)r.range(36, 47); if(o.kind == A_NOTE_ON) o.a[2] = (int64_t)r.range(1, 127); }
                if(o.kind == A_SET_NUM_CHIPS) { o.inst = 0; o.a[0] = (int64_t)r.range(1, 5); cm.chips = (int)o.a[0]; if(cm.emu == 7 && cm.chips > 2) cm.chips = 2; }
                if(o.kind == A_GENERATE) { o.inst = 0; o.a[0] = (int64_t)r.pick<int>({ 2, 64, 256, 512 }); }
                if(o.kind == A_TICK_EVENTS) { o.inst = 0; o.d = r.pick<double>({ 0.0, 0.001, 0.01, 0.02, 0.04, 0.5 }); }
                if(o.kind == A_CONTROLLER) { o.inst = 0; o.a[0] = (int64_t)r.pick<int>({ 0, 1, 9 }); o.a[1] = (int64_t)r.pick<int>({ 64, 64, 66, 123, 121 }); o.a[2] = (int64_t)r.pick<int>({ 0, 127 }); }   // pedals down/up around re-struck keys
                if(o.kind == A_SET_AUTO_ARP) { o.inst = 0; o.a[0] = 1; }
            }
            p.ops.push_back(o);
        }
    }

    static bool expectFail(const Op &o, const Inst &in, int64_t &expectedIsNegative)
    {
        (void)in;
        expectedIsNegative = 1;
        switch(o.kind)
        {
        case A_SET_NUM_CHIPS: return o.a[0] < 1 || o.a[0] > 100;
        case A_SWITCH_EMULATOR: return o.a[0] < 0 || o.a[0] > 8;
        case A_SET_DEVICE_ID: return (unsigned)o.a[0] > 15;
        case A_GET_BANK: return (uint8_t)o.a[0] > 1 || (uint8_t)o.a[1] > 127 || (uint8_t)o.a[2] > 127;
        case A_SET_CHANNEL_ENABLED: return (size_t)o.a[0] >= 16;
        case A_GET_INSTRUMENT: return (unsigned)o.a[1] > 127;
        case A_SET_INSTRUMENT: return (unsigned)o.a[1] > 127 || (int)o.a[4] != 0;
        default: return false;
        }
    }

    void execute(const Plan &p, Run &run)
    {
        SimFsScope fs; g_fs.reset();
        opn2_set_vgm_out_path("kek.vgm");
        World w; w.run = &run; w.maxInst = 3;
        uint64_t bs = (uint64_t)p.get("bankseed"), ss = (uint64_t)p.get("songseed");
        w.bankImages.push_back(stdBankImage(bs, 1, 1));
        w.bankImages.push_back(stdBankImage(bs + 1, 2, 2, false, 0.3));
        w.bankImages.push_back(stdBankImage(bs + 2, 1, 0, true));
        { Rng r(mix64(bs, 77)); BankGenOpts o; o.extreme = true; o.nMel = 1; o.nPerc = 1; w.bankImages.push_back(writeWopn(genWopn(r, o))); }
        for(int k = 0; k < 4; ++k) w.songImages.push_back(stockSong(ss + (uint64_t)k, k));
        for(size_t i = 0; i < p.ops.size() && !run.failed(); ++i)
        {
            const Op &o = p.ops[i];
            noteOp((int)i, o.kind);
            Inst *pre = w.pick(o.inst);
            int emu = pre ? pre->emulator : -1;
            bool bankLoaded = pre ? pre->bankLoaded : false, songLoaded = pre ? pre->songLoaded : false;
            int chipsBefore = (pre && pre->dev) ? opn2_getNumChips(pre->dev) : 0;
            ApiResult res = execApi(w, o);
            if(!res.executed) continue;
            int64_t neg;
            if(pre && expectFail(o, *pre, neg) && res.ret >= 0)
                run.fail("documented-failure-not-reported", apiOpName(o.kind), std::string(apiOpName(o.kind)) + " with invalid argument " + std::to_string(o.a[o.kind == A_SET_INSTRUMENT ? 4 : 0]) + " returned " + std::to_string(res.ret));
            if((o.kind == A_GENERATE_FORMAT || o.kind == A_PLAY_FORMAT) && res.ret != 0)
            {
                // unsupported type/container pairs must be refused with 0 samples
                int t = (int)o.a[1], c = (int)o.a[2];
                bool sup = false;
                if(t == OPNMIDI_SampleType_S8 || t == OPNMIDI_SampleType_U8) sup = (c == 1 || c == 2 || c == 4);
                else if(t == OPNMIDI_SampleType_S16 || t == OPNMIDI_SampleType_U16) sup = (c == 2 || c == 4);
                else if(t == OPNMIDI_SampleType_S24 || t == OPNMIDI_SampleType_U24 || t == OPNMIDI_SampleType_S32 || t == OPNMIDI_SampleType_U32 || t == OPNMIDI_SampleType_F32) sup = (c == 4);
                else if(t == OPNMIDI_SampleType_F64) sup = (c == 8);
                if(!sup) run.fail("unsupported-format-accepted", apiOpName(o.kind), "type " + std::to_string(t) + " container " + std::to_string(c) + " returned " + std::to_string(res.ret));
            }
            // reach measure
            int argClass = 0;
            if(o.kind >= A_NOTE_ON && o.kind <= A_BANK_CHANGE) argClass = (o.a[0] >= 16 ? 1 : 0) | (o.a[1] >= 128 ? 2 : 0) | (o.a[2] >= 128 ? 4 : 0);
            else argClass = o.a[0] < 0 ? 1 : (o.a[0] == 0 ? 2 : (o.a[0] <= 100 ? 3 : 4));
            int chipsB = chipsBefore <= 1 ? 0 : (chipsBefore <= 2 ? 1 : (chipsBefore <= 8 ? 2 : 3));
            Hasher h; h.add((uint64_t)o.kind); h.add((uint64_t)argClass); h.add((uint64_t)emu); h.add((uint64_t)chipsB); h.add(bankLoaded); h.add(songLoaded);
            run.state(h.h);
            if(o.kind == A_SWITCH_EMULATOR && res.ret == 0) run.count(("emu." + std::to_string(o.a[0])).c_str());
            if(chipsBefore > 8) run.count("chips_gt_8");
        }
        for(std::map<std::string, uint64_t>::iterator it = g_fs.fired.begin(); it != g_fs.fired.end(); ++it) run.counters["fault." + it->first] += it->second;
        w.closeAll();
    }

    void shrinkOp(const Op &o, std::vector<Op> &out)
    {
        if(o.kind >= A_PLAY && o.kind <= A_GENERATE_FORMAT && o.a[0] > 4) { Op x = o; x.a[0] = o.a[0] / 2; x.a[0] -= x.a[0] % 2; out.push_back(x); x.a[0] = 2; out.push_back(x); }
        if(o.kind == A_TICK_EVENTS && o.d > 0.01) { Op x = o; x.d = o.d / 2; out.push_back(x); }
        if(o.inst != 0) { Op x = o; x.inst = 0; out.push_back(x); }
    }
};

int main(int argc, char **argv)
{
    C03 c;
    return driverMain(c, argc, argv);
}
