// C11 — loudness controls are monotone and stay within the chip's level range.
// Workload: sounding notes under streams of CC7, CC11, CC74, velocity re-strikes and master-volume SysEx, for
// all 5 volume models x 8 FM algorithms x modulator scaling x full-range brightness; values boundary-biased.
// Oracle per tapped 0x40..0x4F write: range; carriers (datasheet carrier mask of the algorithm) at 127 when
// volume, expression or master volume is 0; modulators equal to the instrument byte unless scaling or a reduced
// brightness is in force; history check: component-wise ordered inputs give inversely ordered carrier
// attenuation, lower brightness never lowers a modulator's attenuation; history independence against a twin
// instance that sets the final controller state first and then strikes the note.
// Honest limit: pure function, sampled not swept.
#include "../sim/snapshot.hpp"

using namespace sim;

enum { U_NOTE = 0, U_CC7, U_CC11, U_CC74, U_MASTER, U_PATCH, U_TWIN, U_COUNT };
static const char *uName(int k) { static const char *n[] = { "noteOn", "cc7", "cc11", "cc74", "masterVolume", "patchChange", "twinCheck" }; return k >= 0 && k < U_COUNT ? n[k] : "?"; }

static const bool kCarrier[8][4] = { // register order of the four operator slots (S1,S3,S2,S4), YM2612 datasheet
    { 0, 0, 0, 1 }, { 0, 0, 0, 1 }, { 0, 0, 0, 1 }, { 0, 0, 0, 1 }, { 0, 0, 1, 1 }, { 0, 1, 1, 1 }, { 0, 1, 1, 1 }, { 1, 1, 1, 1 } };

struct Obs { int prog; int vel, vol, expr, master, bright; uint8_t tl[4]; };

class C11 : public Check
{
public:
    const char *id() { return "C11"; }
    const char *opName(int k) { return uName(k); }
    int quickRuns() { return 50000; }
    int quickSeconds() { return 90; }
    int thoroughSeconds() { return 900; }
    const char *rule()
    {
        return "each run = one (volume model, modulator scaling, full-range brightness) configuration, a bank whose instruments cover all 8 algorithms, and a seeded stream of note strikes and CC7/CC11/CC74/master-volume changes (boundary-biased 0,1,63,64,126,127 + uniform); every total-level write on the register tap is judged, then the run's observations are checked pairwise for monotonicity; "
               "distinct = distinct (model, algorithm, scaling, full-range, which control changed, zero-control?) tuples";
    }
    std::vector<std::string> realComponents() { return { "OPN2::touchNote (five volume models, carrier masks, brightness), noteUpdate(Upd_Volume), master-volume SysEx path" }; }
    std::vector<std::string> stubComponents() { return { "no audio rendered" }; }
    std::vector<std::string> requiredProbes() { return { "tl_write_checked", "model.1", "model.2", "model.3", "model.4", "model.5", "alg.0", "alg.4", "alg.5", "alg.7", "zero_control_silences", "brightness_reduced", "scaled_modulators", "ordered_pair_checked", "twin_history_independent" }; }

    void generate(Rng &r, Plan &p, bool thorough)
    {
        p.cfg["model"] = (int64_t)r.range(1, 5);
        p.cfg["scale"] = (int64_t)r.below(2);
        p.cfg["fullrange"] = (int64_t)r.below(2);
        p.cfg["bankseed"] = (int64_t)r.below(100000);
        p.cfg["veloff"] = (int64_t)r.chance(0.4);   // per-instrument MIDI velocity offsets (only settable through the bank API)
        int len = (int)r.range(20, thorough ? 200 : 100);
        auto val = [&]() -> int64_t { return r.chance(0.45) ? (int64_t)r.pick<int>({ 0, 1, 2, 63, 64, 65, 126, 127 }) : (int64_t)r.below(128); };
        for(int i = 0; i < len; ++i)
        {
            Op o; o.kind = (int)r.weighted({ 30, 16, 16, 12, 8, 8, 6 });
            o.a[0] = (int64_t)r.below(3); // channel index (0,1 melodic, 2 = percussion)
            switch(o.kind)
            {
            case U_NOTE: o.a[1] = (int64_t)r.range(40, 80); o.a[2] = r.chance(0.4) ? (int64_t)r.pick<int>({ 1, 2, 63, 64, 126, 127 }) : (int64_t)r.range(1, 127); break;
            case U_CC7: case U_CC11: case U_CC74: case U_MASTER: o.a[1] = val(); break;
            case U_PATCH: o.a[1] = (int64_t)r.below(32); break;
            default: break;
            }
            p.ops.push_back(o);
        }
    }

    struct Chan { int midi; int vol, expr, bright, patch; int key, vel; bool sounding; unsigned chip; };

    // total-level writes of the last call for one chip channel (register order op index 0..3); returns count seen
    static int tlOf(const void *synth, unsigned chan, uint8_t out[4])
    {
        int seen = 0;
        for(size_t k = 0; k < g_tap.recs.size(); ++k)
        {
            const TapRec &t = g_tap.recs[k]; if(t.synth != synth || t.isPan) continue;
            if(t.reg >= 0x40 && t.reg < 0x50 && (t.reg & 3) != 3) { unsigned c = t.chip * 6 + t.port * 3 + (t.reg & 3); if(c == chan) { out[(t.reg - 0x40) >> 2] = t.val; ++seen; } }
        }
        return seen;
    }

    void execute(const Plan &p, Run &run)
    {
        SimFsScope fs; g_fs.reset();
        tapInstall(true);
        const int model = (int)p.get("model", 1); const bool scale = p.get("scale", 0) != 0, fullRange = p.get("fullrange", 0) != 0;
        Rng br(mix64((uint64_t)p.get("bankseed"), 0xC11)); BankGenOpts bo; GenWopn gw = genWopn(br, bo);
        for(int s = 0; s < 2; ++s) for(int k = 0; k < 128; ++k) { GenIns &in = (s ? gw.perc : gw.mel)[0].ins[k]; in.fbalg = (uint8_t)((in.fbalg & 0x38) | (k & 7)); in.blank = false; in.noteOffset = 0; in.delayOn = 40000; in.delayOff = 10; for(int l = 0; l < 4; ++l) in.ops[l][1] = (uint8_t)(br.chance(0.2) ? br.pick<int>({ 0, 127 }) : br.below(128)); }
        std::vector<uint8_t> bank = writeWopn(gw);
        OPN2_MIDIPlayer *dev[2];
        for(int k = 0; k < 2; ++k)
        {
            dev[k] = opn2_init(44100); opn2_openBankData(dev[k], bank.data(), (long)bank.size());
            opn2_switchEmulator(dev[k], OPNMIDI_EMU_GENS); opn2_setNumChips(dev[k], 2);
            opn2_setVolumeRangeModel(dev[k], model); opn2_setScaleModulators(dev[k], scale); opn2_setFullRangeBrightness(dev[k], fullRange);
        }
        if(p.get("veloff", 0))
        {
            // every third instrument gets a velocity offset in -48..+48 through opn2_setInstrument (the file format has no field for it)
            for(int k = 0; k < 2; ++k) for(unsigned perc = 0; perc < 2; ++perc)
            {
                OPN2_BankId id; memset(&id, 0, sizeof id); id.percussive = (OPN2_UInt8)perc; OPN2_Bank b;
                if(opn2_getBank(dev[k], &id, 0, &b) != 0) continue;
                for(unsigned i = 0; i < 128; i += 3)
                {
                    OPN2_Instrument in; if(opn2_getInstrument(dev[k], &b, i, &in) != 0) continue;
                    in.midi_velocity_offset = (OPN2_SInt8)((int)(mix64((uint64_t)p.get("bankseed"), perc * 128 + i) % 97) - 48);
                    opn2_setInstrument(dev[k], &b, i, &in);
                }
            }
            run.count("velocity_offsets_in_use");
        }
        if(opn2_getVolumeRangeModel(dev[0]) != model) { run.fail("volume-model-not-set", "setup", ""); opn2_close(dev[0]); opn2_close(dev[1]); tapInstall(false); return; }
        run.count(("model." + std::to_string(model)).c_str());
        OPNMIDIplay *pl = Acc::P(dev[0]); const void *synth = pl->m_synth.get(); const void *synthB = Acc::P(dev[1])->m_synth.get();
        Chan ch[3]; int midis[3] = { 0, 5, 9 };
        for(int c = 0; c < 3; ++c) { ch[c].midi = midis[c]; ch[c].vol = 100; ch[c].expr = 127; ch[c].bright = 127; ch[c].patch = 0; ch[c].sounding = false; ch[c].key = 60; ch[c].vel = 100; ch[c].chip = 0; }
        int master = 127;
        std::vector<Obs> obs;

        auto instrumentOf = [&](const Chan &c) -> const GenIns & { return c.midi == 9 ? gw.perc[0].ins[c.key] : gw.mel[0].ins[c.patch]; };
        auto effBright = [&](const Chan &c) { int b = c.midi == 9 ? 127 : c.bright; if(!fullRange) b = b >= 64 ? 127 : b * 2; return b; };
        auto judge = [&](const Chan &c, const uint8_t tl[4], const char *cause) -> bool
        {
            const GenIns &in = instrumentOf(c); int alg = in.fbalg & 7; int eb = effBright(c);
            run.count("tl_write_checked"); run.count(("alg." + std::to_string(alg)).c_str());
            bool zero = c.vol == 0 || c.expr == 0 || master == 0;
            Hasher st; st.add((uint64_t)model); st.add((uint64_t)alg); st.add(scale); st.add(fullRange); st.add(hashStr(cause)); st.add(zero); st.add((uint64_t)(eb < 127)); run.state(st.h);
            for(int l = 0; l < 4; ++l)
            {
                bool carrier = kCarrier[alg][l]; int own = in.ops[l][1];
                std::string where = std::string(cause) + ": model " + std::to_string(model) + " alg " + std::to_string(alg) + " slot " + std::to_string(l) + (carrier ? " (carrier)" : " (modulator)") + " own level " + std::to_string(own) +
                                    " vel " + std::to_string(c.vel) + " vol " + std::to_string(c.vol) + " expr " + std::to_string(c.expr) + " master " + std::to_string(master) + " brightness " + std::to_string(c.bright) + ": wrote " + std::to_string(tl[l]);
                if(own <= 127 && tl[l] > 127) return run.fail("level-out-of-range", "model" + std::to_string(model), where);
                if(carrier)
                {
                    if(zero && tl[l] != 127) return run.fail("zero-control-not-silent", "model" + std::to_string(model), where + " but a zero volume/expression/master must silence the carriers (127)");
                    if(tl[l] < own && own <= 127) return run.fail("carrier-louder-than-instrument", "model" + std::to_string(model), where + " (quieter value expected, never louder than the instrument's own level)");
                }
                else if(!scale)
                {
                    if(eb >= 127 && tl[l] != own) return run.fail("modulator-touched", "model" + std::to_string(model), where + " but neither modulator scaling nor a reduced brightness is in force");
                    if(eb < 127 && tl[l] < own && own <= 127) return run.fail("brightness-brightens", "model" + std::to_string(model), where + " (reduced brightness made the modulator louder)");
                }
            }
            if(zero) run.count("zero_control_silences"); if(eb < 127) run.count("brightness_reduced"); if(scale) run.count("scaled_modulators");
            Obs o; o.prog = c.midi == 9 ? 128 + c.key : c.patch; o.vel = c.vel; o.vol = c.vol; o.expr = c.expr; o.master = master; o.bright = eb; memcpy(o.tl, tl, 4); obs.push_back(o);
            return true;
        };

        for(size_t i = 0; i < p.ops.size() && !run.failed(); ++i)
        {
            const Op &o = p.ops[i];
            noteOp((int)i, o.kind);
            Chan &c = ch[o.a[0] % 3];
            g_tap.recs.clear();
            switch(o.kind)
            {
            case U_NOTE:
            {
                if(c.sounding) opn2_rt_noteOff(dev[0], (OPN2_UInt8)c.midi, (OPN2_UInt8)c.key);
                opn2_tickEvents(dev[0], 0.05, 0.0); run.simSeconds += 0.05; g_tap.recs.clear();
                c.key = (int)o.a[1]; c.vel = (int)o.a[2];
                if(opn2_rt_noteOn(dev[0], (OPN2_UInt8)c.midi, (OPN2_UInt8)c.key, (OPN2_UInt8)c.vel) != 1) { run.fail("playable-note-rejected", uName(o.kind), ""); break; }
                OPNMIDIplay::MIDIchannel::notes_iterator ni = pl->m_midiChannels[(size_t)c.midi].find_activenote((unsigned)c.key);
                if(ni.is_end()) { run.fail("accepted-note-without-channel", uName(o.kind), ""); break; }
                c.chip = ni->value.chip_channels[0].chip_chan; c.sounding = true;
                uint8_t tl[4]; if(tlOf(synth, c.chip, tl) < 4) { run.fail("note-on-without-level-write", uName(o.kind), "fewer than 4 total-level writes during note-on"); break; }
                judge(c, tl, "note-on");
                break;
            }
            case U_CC7: case U_CC11: case U_CC74:
            {
                int v = (int)o.a[1] & 127; int ccn = o.kind == U_CC7 ? 7 : o.kind == U_CC11 ? 11 : 74;
                (o.kind == U_CC7 ? c.vol : o.kind == U_CC11 ? c.expr : c.bright) = v;
                opn2_rt_controllerChange(dev[0], (OPN2_UInt8)c.midi, (OPN2_UInt8)ccn, (OPN2_UInt8)v);
                if(!c.sounding) break;
                uint8_t tl[4]; if(tlOf(synth, c.chip, tl) < 4) { run.fail("controller-did-not-rewrite-levels", uName(o.kind), "CC" + std::to_string(ccn) + " on a channel with a sounding note wrote no total levels"); break; }
                judge(c, tl, uName(o.kind));
                break;
            }
            case U_MASTER:
            {
                master = (int)o.a[1] & 127; uint8_t m[8] = { 0xF0, 0x7F, 0x7F, 0x04, 0x01, 0x00, (uint8_t)master, 0xF7 };
                if(opn2_rt_systemExclusive(dev[0], m, 8) != 1) { run.fail("master-volume-rejected", uName(o.kind), ""); break; }
                for(int k = 0; k < 3 && !run.failed(); ++k) if(ch[k].sounding) { uint8_t tl[4]; if(tlOf(synth, ch[k].chip, tl) < 4) { run.fail("controller-did-not-rewrite-levels", uName(o.kind), "master volume change wrote no total levels for a sounding note"); break; } judge(ch[k], tl, uName(o.kind)); }
                break;
            }
            case U_PATCH: if(c.midi != 9) { c.patch = (int)o.a[1] & 127; opn2_rt_patchChange(dev[0], (OPN2_UInt8)c.midi, (OPN2_UInt8)c.patch); if(c.sounding) { opn2_rt_noteOff(dev[0], (OPN2_UInt8)c.midi, (OPN2_UInt8)c.key); c.sounding = false; } } break;
            case U_TWIN:
            {
                // history independence: a fresh strike under the same final controller state writes the same levels
                if(!c.sounding) break;
                OPNMIDIplay::MIDIchannel::notes_iterator ni = pl->m_midiChannels[(size_t)c.midi].find_activenote((unsigned)c.key); if(ni.is_end()) break;
                opn2_rt_controllerChange(dev[0], (OPN2_UInt8)c.midi, 11, (OPN2_UInt8)c.expr); // forces a level re-write on A
                uint8_t tla[4]; if(tlOf(synth, c.chip, tla) < 4) break;
                OPN2_MIDIPlayer *b = dev[1]; opn2_panic(b); opn2_tickEvents(b, 0.05, 0.0);
                uint8_t m[8] = { 0xF0, 0x7F, 0x7F, 0x04, 0x01, 0x00, (uint8_t)master, 0xF7 }; opn2_rt_systemExclusive(b, m, 8);
                opn2_rt_patchChange(b, (OPN2_UInt8)c.midi, (OPN2_UInt8)c.patch); opn2_rt_controllerChange(b, (OPN2_UInt8)c.midi, 7, (OPN2_UInt8)c.vol); opn2_rt_controllerChange(b, (OPN2_UInt8)c.midi, 11, (OPN2_UInt8)c.expr); opn2_rt_controllerChange(b, (OPN2_UInt8)c.midi, 74, (OPN2_UInt8)c.bright);
                g_tap.recs.clear();
                if(opn2_rt_noteOn(b, (OPN2_UInt8)c.midi, (OPN2_UInt8)c.key, (OPN2_UInt8)c.vel) != 1) break;
                OPNMIDIplay::MIDIchannel::notes_iterator nb = Acc::P(b)->m_midiChannels[(size_t)c.midi].find_activenote((unsigned)c.key); if(nb.is_end()) break;
                uint8_t tlb[4]; if(tlOf(synthB, nb->value.chip_channels[0].chip_chan, tlb) < 4) break;
                if(memcmp(tla, tlb, 4) != 0)
                { char buf[200]; snprintf(buf, sizeof buf, "levels after the controller history %u %u %u %u, fresh strike under the same final state %u %u %u %u (model %d)", tla[0], tla[1], tla[2], tla[3], tlb[0], tlb[1], tlb[2], tlb[3], model); run.fail("levels-depend-on-history", "model" + std::to_string(model), buf); break; }
                run.count("twin_history_independent");
                break;
            }
            }
        }
        // ---- history check: monotonicity over the run's observations
        for(size_t a = 0; a < obs.size() && !run.failed(); ++a) for(size_t b = 0; b < obs.size() && !run.failed(); ++b)
        {
            if(a == b || obs[a].prog != obs[b].prog) continue;
            const Obs &x = obs[a], &y = obs[b];
            const GenIns &in = x.prog >= 128 ? gw.perc[0].ins[x.prog - 128] : gw.mel[0].ins[x.prog]; int alg = in.fbalg & 7;
            bool le = x.vel <= y.vel && x.vol <= y.vol && x.expr <= y.expr && x.master <= y.master;
            if(le && x.bright == y.bright)
            {
                run.count("ordered_pair_checked");
                for(int l = 0; l < 4; ++l) if((kCarrier[alg][l] || scale) && x.tl[l] < y.tl[l])
                {
                    char buf[300]; snprintf(buf, sizeof buf, "model %d alg %d slot %d: (vel %d vol %d expr %d master %d) -> level %u but the component-wise larger (vel %d vol %d expr %d master %d) -> level %u (more attenuation)", model, alg, l, x.vel, x.vol, x.expr, x.master, x.tl[l], y.vel, y.vol, y.expr, y.master, y.tl[l]);
                    run.fail("loudness-not-monotone", "model" + std::to_string(model), buf); break;
                }
            }
            if(!scale && x.vel == y.vel && x.vol == y.vol && x.expr == y.expr && x.master == y.master && x.bright <= y.bright)
                for(int l = 0; l < 4; ++l) if(!kCarrier[alg][l] && x.tl[l] < y.tl[l])
                { char buf[200]; snprintf(buf, sizeof buf, "model %d alg %d modulator slot %d: brightness %d -> level %u but the higher brightness %d -> level %u", model, alg, l, x.bright, x.tl[l], y.bright, y.tl[l]); run.fail("lower-brightness-brightens", "model" + std::to_string(model), buf); break; }
        }
        run.log.add(obs.size()); for(size_t k = 0; k < obs.size(); ++k) run.log.addBytes(obs[k].tl, 4);
        opn2_close(dev[0]); opn2_close(dev[1]);
        tapInstall(false);
    }
};

int main(int argc, char **argv)
{
    C11 c;
    return driverMain(c, argc, argv);
}
