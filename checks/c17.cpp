// C17 — container/converter front-ends preserve the music (RMI, GMF, MUS, XMI).
// Workload: own MUS and XMI writers generate well-formed scores from an abstract event list (MUS: all event
// types, <=15 channels + percussion, volume bit on/off, multi-byte delays; XMI: 1..4 songs, note-on with
// duration VLQ, controllers, program, bend, tempo meta at time 0, INFO/TIMB/RBRN chunks); RMI/GMF wrappers
// around C07 songs. Played tick-driven with seeded slicings; opn2_selectSongNum before load.
// Oracle: RMI/GMF: twin instance, raw-event log identical to the bare SMF's under the same slicing.
// MUS/XMI: the log equals the abstract event list mapped by the format's rules and inter-event times are
// ticks/rate with rate = 140 Hz +-2.5 % (MUS) and 120 Hz (XMI carrying its tempo).
#include "../sim/seqmodel.hpp"
#include "../sim/engine.hpp"
#include "../sim/simfs.hpp"

extern "C" void opn2_set_vgm_out_path(const char *path);
using namespace sim;

enum { T_ADVANCE = 0, T_COUNT };

struct AbsEv { uint32_t tick; int kind; int ch; int a, b; uint32_t dur; }; // kind: 0 off,1 on,2 bend,3 system,4 controller,5 program (MUS) / midi status nibble (XMI)

static const uint8_t kMusCtl[15] = { 0, 0, 0x01, 0x07, 0x0A, 0x0B, 0x5B, 0x5D, 0x40, 0x43, 0x78, 0x7B, 0x7E, 0x7F, 0x79 };

class C17 : public Check
{
public:
    const char *id() { return "C17"; }
    const char *opName(int) { return "advance"; }
    int quickRuns() { return 40000; }
    int quickSeconds() { return 90; }
    int thoroughSeconds() { return 900; }
    const char *rule()
    {
        return "each run = one generated file of kind RMI / GMF / MUS / XMI (1..4 songs) and a seeded tick slicing to the end; RMI/GMF compared with a twin instance playing the bare SMF; MUS/XMI compared with the format's event mapping and nominal tick rate; "
               "distinct = distinct (kind, song count / selected song, event-type set used, slicing-policy set) tuples";
    }
    std::vector<std::string> realComponents() { return { "BW_MidiSequencer::parseRMI/parseGMF/parseMUS/parseXMI, Convert_mus2midi, Convert_xmi2midi_multi, setSongNum, then the normal SMF path" }; }
    std::vector<std::string> stubComponents() { return { "chip output unused (tick-driven)" }; }
    std::vector<std::string> requiredProbes() { return { "kind.rmi", "kind.gmf", "kind.mus", "kind.xmi", "mus.system_event", "mus.pitch_odd", "mus.multibyte_delay", "mus.channel15", "mus.volume_remembered", "xmi.multi_song", "xmi.song_selected_gt0", "xmi.note_duration", "xmi.rbrn_timb" }; }

    void generate(Rng &r, Plan &p, bool thorough)
    {
        p.cfg["kind"] = (int64_t)r.weighted({ 2, 2, 4, 4 });
        p.cfg["seed"] = (int64_t)r.below(1u << 30);
        p.cfg["nev"] = thorough ? (int64_t)r.range(5, 120) : (int64_t)r.range(5, 60);
        p.cfg["songs"] = (int64_t)r.range(1, 4);
        p.cfg["select"] = (int64_t)r.range(0, 4);
        int len = (int)r.range(5, 40);
        for(int i = 0; i < len; ++i) { Op o(T_ADVANCE); o.a[0] = (int64_t)r.below(4); o.d = r.unit(); p.ops.push_back(o); }
    }

    // ---------------- MUS
    static std::vector<uint8_t> writeMus(const std::vector<AbsEv> &ev, int primaryChannels, Rng &r, Run &run)
    {
        std::vector<uint8_t> score;
        std::map<int, int> lastVol;
        for(size_t i = 0; i < ev.size(); ++i)
        {
            const AbsEv &e = ev[i];
            uint32_t delay = (i + 1 < ev.size()) ? ev[i + 1].tick - e.tick : 0;
            uint8_t head = (uint8_t)((delay ? 0x80 : 0) | (e.ch & 15));
            switch(e.kind)
            {
            case 0: score.push_back(head | (0 << 4)); score.push_back((uint8_t)e.a); break;
            case 1:
            {
                bool withVol = e.b >= 0;
                score.push_back(head | (1 << 4)); score.push_back((uint8_t)(e.a | (withVol ? 0x80 : 0)));
                if(withVol) score.push_back((uint8_t)e.b);
                break;
            }
            case 2: score.push_back(head | (2 << 4)); score.push_back((uint8_t)e.a); break;
            case 3: score.push_back(head | (3 << 4)); score.push_back((uint8_t)e.a); break;
            case 4: score.push_back(head | (4 << 4)); score.push_back((uint8_t)e.a); score.push_back((uint8_t)e.b); break;
            case 5: score.push_back(head | (4 << 4)); score.push_back(0); score.push_back((uint8_t)e.a); break;
            case 6: score.push_back(head | (6 << 4)); break;
            }
            if(delay)
            {
                uint8_t b[5]; int n = 0; uint32_t v = delay;
                b[n++] = (uint8_t)(v & 0x7F); while((v >>= 7)) b[n++] = (uint8_t)((v & 0x7F) | 0x80);
                if(n > 1) run.count("mus.multibyte_delay");
                while(n) score.push_back(b[--n]);
            }
        }
        int instr = (int)r.below(4);
        std::vector<uint8_t> f = { 'M', 'U', 'S', 0x1A };
        unsigned scoreStart = 16 + 2 * (unsigned)instr;
        putLE16(f, (unsigned)score.size()); putLE16(f, scoreStart); putLE16(f, (unsigned)primaryChannels); putLE16(f, 0); putLE16(f, (unsigned)instr); putLE16(f, 0);
        for(int i = 0; i < instr; ++i) putLE16(f, (unsigned)r.below(175));
        f.insert(f.end(), score.begin(), score.end());
        return f;
    }

    // ---------------- XMI
    static void putBE32v(std::vector<uint8_t> &o, uint32_t v) { o.push_back((uint8_t)(v >> 24)); o.push_back((uint8_t)(v >> 16)); o.push_back((uint8_t)(v >> 8)); o.push_back((uint8_t)v); }
    static void chunk(std::vector<uint8_t> &o, const char *id, const std::vector<uint8_t> &data)
    {
        o.insert(o.end(), id, id + 4); putBE32v(o, (uint32_t)data.size()); o.insert(o.end(), data.begin(), data.end()); if(data.size() & 1) o.push_back(0);
    }
    static std::vector<uint8_t> xmiEvnt(const std::vector<AbsEv> &ev, uint32_t tempo, uint32_t endTick)
    {
        std::vector<uint8_t> d; uint32_t last = 0;
        auto delta = [&](uint32_t tick) { uint32_t dl = tick - last; last = tick; while(dl > 127) { d.push_back(127); dl -= 127; } if(dl) d.push_back((uint8_t)dl); };
        // tempo meta at time 0 (the sequence carries its tempo)
        d.push_back(0xFF); d.push_back(0x51); d.push_back(3); d.push_back((uint8_t)(tempo >> 16)); d.push_back((uint8_t)(tempo >> 8)); d.push_back((uint8_t)tempo);
        for(size_t i = 0; i < ev.size(); ++i)
        {
            const AbsEv &e = ev[i];
            delta(e.tick);
            d.push_back((uint8_t)((e.kind << 4) | e.ch)); d.push_back((uint8_t)e.a);
            if(e.kind != 0xC && e.kind != 0xD) d.push_back((uint8_t)e.b);
            if(e.kind == 0x9) { uint32_t v = e.dur; uint8_t b[5]; int n = 0; b[n++] = (uint8_t)(v & 0x7F); while((v >>= 7)) b[n++] = (uint8_t)((v & 0x7F) | 0x80); while(n) d.push_back(b[--n]); }
        }
        delta(endTick);
        d.push_back(0xFF); d.push_back(0x2F); d.push_back(0x00);
        return d;
    }

    struct Delivered { double t; uint64_t key; uint8_t type, sub, ch; std::vector<uint8_t> data; };
    struct TimeRec { OPN2_MIDIPlayer *dev; std::vector<Delivered> ev; };
    static void timeHook(void *ud, OPN2_UInt8 type, OPN2_UInt8 subtype, OPN2_UInt8 channel, const OPN2_UInt8 *data, size_t len)
    {
        TimeRec *r = (TimeRec *)ud; RawEvt e; e.type = type; e.subtype = subtype; e.channel = channel; if(len) e.data.assign(data, data + len);
        Delivered d; d.t = opn2_positionTell(r->dev); d.key = e.key(); d.type = type; d.sub = subtype; d.ch = channel; d.data = e.data;
        r->ev.push_back(d);
    }

    // play to the end, one row per call ("exact returned delay"), stamping each delivery with the song time
    static bool playStamped(OPN2_MIDIPlayer *dev, Run &run)
    {
        double d = 0;
        for(int n = 0; n < 200000; ++n) { if(opn2_atEnd(dev)) return true; d = opn2_tickEvents(dev, d, 1e-7); run.simSeconds += d; }
        return false;
    }

    void execute(const Plan &p, Run &run)
    {
        SimFsScope fs; g_fs.reset();
        opn2_set_vgm_out_path("kek.vgm");
        const int kind = (int)p.get("kind", 0);
        Rng r(mix64((uint64_t)p.get("seed"), 0xC17));
        std::vector<uint8_t> bank = stdBankImage(1, 1, 1);
        uint64_t evTypes = 0;
        if(kind == 0 || kind == 1)
        {
            // ---- RMI / GMF twin
            run.count(kind == 0 ? "kind.rmi" : "kind.gmf");
            SongOpts so; so.maxTracks = kind == 0 ? 4 : 1; so.maxEventsPerTrack = (int)p.get("nev", 30); so.maxSeconds = 6.0; so.eotVariants = false; so.tempoChanges = true;
            Song song = genSong(r, so);
            std::vector<uint8_t> wrapped, bare;
            if(kind == 0)
            {
                for(size_t tk = 0; tk < song.tracks.size(); ++tk) { STrack &t = song.tracks[tk]; t.hasEOT = true; t.trailing.clear(); t.eotTick = (t.ev.empty() ? 0 : t.ev.back().tick) + (uint32_t)r.below(50); }
                bare = writeSmf(song, r.chance(0.5)); wrapped = wrapRmi(bare);
            }
            else
            {
                song.format = 0; song.division = 192; song.tracks.resize(1);
                STrack &t = song.tracks[0]; t.hasEOT = true; t.trailing.clear(); t.eotTick = t.ev.empty() ? 0 : t.ev.back().tick;
                bare = writeSmf(song, false);
                STrack g = t; g.hasEOT = false; std::vector<uint8_t> td = writeTrack(g, false); td.push_back(0x00); // delta before the end tag the loader appends
                const char *hd = "GMF\x01"; wrapped.insert(wrapped.end(), hd, hd + 4); wrapped.push_back((uint8_t)r.below(256)); wrapped.push_back((uint8_t)r.below(256)); wrapped.push_back((uint8_t)r.below(256));
                wrapped.insert(wrapped.end(), td.begin(), td.end());
                while(wrapped.size() < 14) wrapped.push_back(0);
            }
            OPN2_MIDIPlayer *dev[2]; RawRecorder rec[2];
            for(int k = 0; k < 2; ++k)
            {
                dev[k] = opn2_init(44100); opn2_openBankData(dev[k], bank.data(), (long)bank.size());
                opn2_setRawEventHook(dev[k], RawRecorder::cb, &rec[k]);
                const std::vector<uint8_t> &img = k ? wrapped : bare;
                if(opn2_openData(dev[k], img.data(), (unsigned long)img.size()) != 0)
                { run.fail(k ? "wrapped-file-rejected" : "wellformed-smf-rejected", kind == 0 ? "rmi" : "gmf", opn2_errorInfo(dev[k])); break; }
            }
            if(!run.failed())
            {
                double len0 = opn2_totalTimeLength(dev[0]), len1 = opn2_totalTimeLength(dev[1]);
                if(std::fabs(len0 - len1) > 1e-9) run.fail("wrapped-length-differs", kind == 0 ? "rmi" : "gmf", "bare SMF length " + std::to_string(len0) + " wrapped " + std::to_string(len1));
                double last[2] = { 0, 0 }; int call = 0; size_t opi = 0; uint64_t pol = 0;
                for(int n = 0; n < 100000 && !run.failed() && !(opn2_atEnd(dev[0]) && opn2_atEnd(dev[1])); ++n)
                {
                    const Op &o = p.ops[opi++ % p.ops.size()]; noteOp((int)(opi % p.ops.size()), T_ADVANCE);
                    double s; switch((int)o.a[0]) { default: case 0: s = last[0]; break; case 1: s = last[0] * o.d; break; case 2: s = 0.01 + o.d; break; case 3: s = 0; break; }
                    pol |= 1ull << o.a[0];
                    for(int k = 0; k < 2; ++k) { rec[k].curCall = call; last[k] = opn2_tickEvents(dev[k], s, 1e-4); }
                    ++call; run.simSeconds += s;
                    if(std::fabs(last[0] - last[1]) > 1e-9) run.fail("wrapped-delay-differs", kind == 0 ? "rmi" : "gmf", "returned delays differ: " + std::to_string(last[0]) + " vs " + std::to_string(last[1]));
                }
                if(!run.failed())
                {
                    std::vector<std::pair<uint64_t, int> > la, lb;
                    for(int k = 0; k < 2; ++k) for(size_t e = 0; e < rec[k].ev.size(); ++e) (k ? lb : la).push_back(std::make_pair(rec[k].ev[e].key(), rec[k].ev[e].call));
                    if(la != lb) { size_t d = 0; while(d < la.size() && d < lb.size() && la[d] == lb[d]) ++d; run.fail("wrapped-plays-differently", kind == 0 ? "rmi" : "gmf", "bare SMF delivered " + std::to_string(la.size()) + " events, wrapped " + std::to_string(lb.size()) + ", first difference at #" + std::to_string(d)); }
                    run.log.add(la.size());
                }
                evTypes = pol;
            }
            for(int k = 0; k < 2; ++k) opn2_close(dev[k]);
        }
        else if(kind == 2)
        {
            // ---- MUS
            run.count("kind.mus");
            int nev = (int)p.get("nev", 30);
            int nch = (int)r.range(1, 15);
            std::vector<int> chans; for(int i = 0; i < nch; ++i) chans.push_back((int)r.below(15)); if(r.chance(0.7)) chans.push_back(15);
            std::vector<AbsEv> ev; uint32_t tick = 0; std::set<int> primaries;
            for(int i = 0; i < nev; ++i)
            {
                AbsEv e; e.ch = chans[r.below(chans.size())]; e.tick = tick; e.dur = 0; e.b = 0;
                int k = (int)r.weighted({ 20, 30, 10, 6, 14, 6 });
                e.kind = k;
                switch(k)
                {
                case 0: e.a = (int)r.below(128); break;
                case 1: e.a = (int)r.below(128); e.b = r.chance(0.5) ? (int)r.below(128) : -1; break;
                case 2: e.a = (int)r.below(256); if(e.a & 1) run.count("mus.pitch_odd"); break;
                case 3: e.a = (int)r.range(10, 14); run.count("mus.system_event"); break;
                case 4: e.a = (int)r.range(1, 9); e.b = (int)r.below(128); break;
                case 5: e.a = (int)r.below(128); break;
                }
                if(e.ch == 15) run.count("mus.channel15"); else primaries.insert(e.ch);
                ev.push_back(e); evTypes |= 1ull << k;
                tick += r.chance(0.3) ? 0 : (r.chance(0.85) ? (uint32_t)r.range(1, 100) : (uint32_t)r.range(128, 3000));
            }
            AbsEv end; end.kind = 6; end.ch = 0; end.tick = tick; end.a = end.b = 0; end.dur = 0; ev.push_back(end);
            // the score-end event uses whatever channel nibble: keep one already used so no new channel is mapped by it
            ev.back().ch = ev[0].ch;
            int primaryChannels = (int)primaries.size();
            std::vector<uint8_t> mus = writeMus(ev, primaryChannels, r, run);
            // expected MIDI stream
            struct Exp { uint32_t tick; uint64_t key; std::string what; };
            std::vector<Exp> exp;
            int map[16]; for(int i = 0; i < 16; ++i) map[i] = -1; map[15] = 9; int next = 0; int vol[16]; for(int i = 0; i < 16; ++i) vol[i] = 0x40;
            auto push = [&](uint32_t t, unsigned nib, unsigned ch, unsigned d1, unsigned d2, const char *w) { Exp x; x.tick = t; x.key = keyChannel(nib, ch, d1, (nib == 0xC || nib == 0xD) ? 0 : d2); x.what = w; exp.push_back(x); };
            push(0, 0xB, 9, 7, 100, "percussion volume");
            for(size_t i = 0; i < ev.size(); ++i)
            {
                const AbsEv &e = ev[i];
                if(map[e.ch] < 0) { map[e.ch] = next++; if(next == 9) ++next; push(e.tick, 0xB, (unsigned)map[e.ch], 7, 100, "channel init volume"); }
                unsigned mc = (unsigned)map[e.ch];
                switch(e.kind)
                {
                case 0: push(e.tick, 0x8, mc, (unsigned)e.a, 0x40, "release"); break;
                case 1: if(e.b >= 0) vol[mc] = e.b; else run.count("mus.volume_remembered"); push(e.tick, 0x9, mc, (unsigned)e.a, (unsigned)vol[mc], "play"); break;
                case 2: push(e.tick, 0xE, mc, (unsigned)((e.a & 1) << 6), (unsigned)((e.a >> 1) & 127), "pitch wheel"); break;
                case 3: push(e.tick, 0xB, mc, kMusCtl[e.a], e.a == 12 ? (unsigned)(primaryChannels + 1) : 0u, "system event"); break;
                case 4: push(e.tick, 0xB, mc, kMusCtl[e.a], (unsigned)e.b, "controller"); break;
                case 5: push(e.tick, 0xC, mc, (unsigned)e.a, 0, "program"); break;
                case 6: break;
                }
            }
            // a play with volume 0 is a MIDI note-on with velocity 0 = note-off for the receiver: the sequencer reports it as such
            OPN2_MIDIPlayer *dev = opn2_init(44100); opn2_openBankData(dev, bank.data(), (long)bank.size());
            TimeRec tr; tr.dev = dev; opn2_setRawEventHook(dev, timeHook, &tr);
            if(opn2_openData(dev, mus.data(), (unsigned long)mus.size()) != 0) run.fail("wellformed-mus-rejected", "mus", opn2_errorInfo(dev));
            else if(!playStamped(dev, run)) run.fail("song-never-ends", "mus", "");
            if(!run.failed()) compare(run, "mus", tr.ev, [&](std::vector<std::pair<uint32_t, uint64_t> > &out) { for(size_t i = 0; i < exp.size(); ++i) { uint64_t k = exp[i].key; unsigned nib = (unsigned)(k >> 40) & 0xF; if(nib == 0x9 && (k & 0xFF) == 0) k = keyChannel(0x8, (unsigned)(k >> 32) & 0xFF, (unsigned)(k >> 8) & 0xFF, 0); out.push_back(std::make_pair(exp[i].tick, k)); } },
                                       1.0 / 140.0, 0.025, tick);
            opn2_close(dev);
        }
        else
        {
            // ---- XMI
            run.count("kind.xmi");
            int songs = (int)p.get("songs", 1), select = (int)p.get("select", 0);
            if(songs > 1) run.count("xmi.multi_song");
            std::vector<std::vector<AbsEv> > all((size_t)songs); std::vector<uint32_t> endTick((size_t)songs), tempo((size_t)songs);
            std::vector<uint8_t> cat; const char *xm = "XMID"; cat.insert(cat.end(), xm, xm + 4);
            for(int s = 0; s < songs; ++s)
            {
                int nev = (int)p.get("nev", 30); uint32_t tick = 0;
                tempo[(size_t)s] = (uint32_t)r.pick<int>({ 250000, 500000, 500000, 750000, 1000000 });
                for(int i = 0; i < nev; ++i)
                {
                    AbsEv e; e.ch = (int)r.below(16); e.tick = tick; e.dur = 0; e.b = 0;
                    int k = (int)r.weighted({ 40, 20, 8, 8, 4, 4 });
                    static const int kinds[6] = { 0x9, 0xB, 0xC, 0xE, 0xD, 0xA };
                    e.kind = kinds[k];
                    switch(e.kind)
                    {
                    case 0x9: e.a = (int)r.below(128); e.b = (int)r.range(1, 127); e.dur = r.chance(0.8) ? (uint32_t)r.range(1, 200) : (uint32_t)r.range(200, 20000); run.count("xmi.note_duration"); break;
                    case 0xB: e.a = r.pick<int>({ 1, 7, 10, 11, 64, 91, 93, 32, 110, 111, 110, 111 }); e.b = (int)r.below(128); break;   // 110/111: AIL channel lock - plain controllers in an XMI (loop markers only in other formats)
                    case 0xC: e.a = (int)r.below(128); break;
                    case 0xE: e.a = (int)r.below(128); e.b = (int)r.below(128); break;
                    case 0xD: e.a = (int)r.below(128); break;
                    case 0xA: e.a = (int)r.below(128); e.b = (int)r.below(128); break;
                    }
                    all[(size_t)s].push_back(e); evTypes |= 1ull << k;
                    tick += r.chance(0.3) ? 0 : (r.chance(0.9) ? (uint32_t)r.range(1, 120) : (uint32_t)r.range(128, 1000));
                }
                uint32_t lastOff = tick; for(size_t i = 0; i < all[(size_t)s].size(); ++i) if(all[(size_t)s][i].kind == 0x9) lastOff = std::max(lastOff, all[(size_t)s][i].tick + all[(size_t)s][i].dur);
                endTick[(size_t)s] = lastOff + (uint32_t)r.below(30);
                std::vector<uint8_t> form; form.insert(form.end(), xm, xm + 4);
                if(r.chance(0.5)) { std::vector<uint8_t> timb; int n = (int)r.below(4); putLE16(timb, (unsigned)n); for(int i = 0; i < n; ++i) { timb.push_back((uint8_t)r.below(128)); timb.push_back((uint8_t)r.below(128)); } chunk(form, "TIMB", timb); run.count("xmi.rbrn_timb"); }
                chunk(form, "EVNT", xmiEvnt(all[(size_t)s], tempo[(size_t)s], endTick[(size_t)s]));
                chunk(cat, "FORM", form);
            }
            std::vector<uint8_t> xdir; const char *xd = "XDIR"; xdir.insert(xdir.end(), xd, xd + 4);
            { std::vector<uint8_t> info; putLE16(info, (unsigned)songs); chunk(xdir, "INFO", info); }
            std::vector<uint8_t> file; chunk(file, "FORM", xdir); chunk(file, "CAT ", cat);
            OPN2_MIDIPlayer *dev = opn2_init(44100); opn2_openBankData(dev, bank.data(), (long)bank.size());
            TimeRec tr; tr.dev = dev; opn2_setRawEventHook(dev, timeHook, &tr);
            int sel = select % songs; if(sel > 0) run.count("xmi.song_selected_gt0");
            opn2_selectSongNum(dev, sel);
            // a third of the runs open the file on a player that has already opened an XMI file (the same bytes): the song list is the new file's, not the two appended
            if(mix64((uint64_t)file.size() * 2654435761u + (uint64_t)songs, 0x17A) % 3 == 0) { opn2_openData(dev, file.data(), (unsigned long)file.size()); run.count("xmi.opened_after_another_xmi"); }
            if(opn2_openData(dev, file.data(), (unsigned long)file.size()) != 0) run.fail("wellformed-xmi-rejected", "xmi", opn2_errorInfo(dev));
            else
            {
                if(opn2_getSongsCount(dev) != songs) run.fail("songs-count", "xmi", "opn2_getSongsCount " + std::to_string(opn2_getSongsCount(dev)) + " != " + std::to_string(songs));
                else if(!playStamped(dev, run)) run.fail("song-never-ends", "xmi", "");
            }
            if(!run.failed())
            {
                const std::vector<AbsEv> &ev = all[(size_t)sel];
                compare(run, "xmi", tr.ev, [&](std::vector<std::pair<uint32_t, uint64_t> > &out)
                {
                    for(size_t i = 0; i < ev.size(); ++i)
                    {
                        const AbsEv &e = ev[i];
                        unsigned d2 = (unsigned)e.b; unsigned d1 = (unsigned)e.a;
                        out.push_back(std::make_pair(e.tick, keyChannel((unsigned)e.kind, (unsigned)e.ch, d1, (e.kind == 0xC || e.kind == 0xD) ? 0 : d2)));
                        if(e.kind == 0x9) out.push_back(std::make_pair(e.tick + e.dur, keyChannel(0x8, (unsigned)e.ch, d1, 0)));
                    }
                }, 1.0 / 120.0, 0.001, endTick[(size_t)sel]);
            }
            opn2_close(dev);
        }
        Hasher h; h.add((uint64_t)kind); h.add(evTypes); h.add((uint64_t)p.get("songs", 1)); h.add((uint64_t)p.get("select", 0) % (uint64_t)p.get("songs", 1));
        run.state(h.h);
    }

    // expected (tick,key) multiset vs delivered (time,key): same multiset in time order, times proportional to ticks
    template<class F> static void compare(Run &run, const char *fmt, const std::vector<Delivered> &got, F fill, double nominalTick, double tol, uint32_t lastTick)
    {
        std::vector<std::pair<uint32_t, uint64_t> > exp; fill(exp);
        std::stable_sort(exp.begin(), exp.end(), [](const std::pair<uint32_t, uint64_t> &a, const std::pair<uint32_t, uint64_t> &b) { return a.first < b.first; });
        std::vector<Delivered> g;
        for(size_t i = 0; i < got.size(); ++i)
        {
            const Delivered &d = got[i];
            if(d.type == 0xFF) continue;    // tempo, End-of-Track, song-begin pseudo event, XMI branch markers: container bookkeeping
            g.push_back(d);
        }
        if(g.size() != exp.size()) { run.fail("converted-event-count", fmt, std::string(fmt) + ": " + std::to_string(g.size()) + " channel events delivered, the score defines " + std::to_string(exp.size())); return; }
        // group by expected tick; within one tick compare as multisets (the sequencer may reorder same-tick events by its class rule)
        size_t i = 0; double scale = 0; bool haveScale = false;
        while(i < exp.size())
        {
            size_t j = i; while(j < exp.size() && exp[j].first == exp[i].first) ++j;
            std::multiset<uint64_t> a, b; for(size_t k = i; k < j; ++k) { a.insert(exp[k].second); b.insert(g[k].key); }
            if(a != b)
            {
                std::string detail = std::string(fmt) + " tick " + std::to_string(exp[i].first) + ": delivered events differ from the score's (";
                for(size_t k = i; k < j && k < i + 4; ++k) { char buf[96]; snprintf(buf, sizeof buf, "got %02x ch%d %s; ", g[k].type, g[k].ch, toHex(g[k].data).c_str()); detail += buf; }
                for(size_t k = i; k < j && k < i + 4; ++k) { char buf[96]; uint64_t kk = exp[k].second; snprintf(buf, sizeof buf, "want %02x ch%d %02x %02x; ", (unsigned)(kk >> 40) & 0xFF, (unsigned)(kk >> 32) & 0xFF, (unsigned)(kk >> 8) & 0xFF, (unsigned)kk & 0xFF); detail += buf; }
                // class the mismatch by the first wanted kind that is missing
                std::string sig = fmt; for(std::multiset<uint64_t>::iterator it = a.begin(); it != a.end(); ++it) if(!b.count(*it)) { char buf[16]; snprintf(buf, sizeof buf, ".kind%x", (unsigned)(*it >> 40) & 0xF); sig += buf; break; }
                run.fail("converted-event-mismatch", sig, detail + ")"); return;
            }
            // timing: all events of the tick delivered at the same song time, proportional to the tick
            for(size_t k = i; k < j; ++k) if(std::fabs(g[k].t - g[i].t) > 1e-6) { run.fail("converted-timing", fmt, std::string(fmt) + ": events of tick " + std::to_string(exp[i].first) + " delivered at different times"); return; }
            if(exp[i].first > 0)
            {
                double per = g[i].t / (double)exp[i].first;
                if(!haveScale) { scale = per; haveScale = true; }
                if(std::fabs(per - scale) > scale * 2e-3 + 2e-6 / (double)exp[i].first) { run.fail("converted-timing", fmt, std::string(fmt) + ": time per tick drifts: " + std::to_string(per) + " at tick " + std::to_string(exp[i].first) + " vs " + std::to_string(scale)); return; }
            }
            else if(g[i].t > 1e-6) { run.fail("converted-timing", fmt, std::string(fmt) + ": tick-0 events delivered at t=" + std::to_string(g[i].t)); return; }
            i = j;
        }
        if(haveScale && std::fabs(scale - nominalTick) > nominalTick * tol)
            run.fail("converted-tick-rate", fmt, std::string(fmt) + ": one source tick lasts " + std::to_string(scale * 1000) + " ms = " + std::to_string(1.0 / scale) + " Hz, nominal " + std::to_string(1.0 / nominalTick) + " Hz +-" + std::to_string(tol * 100) + "%");
        (void)lastTick;
        run.log.add(g.size());
    }
};

int main(int argc, char **argv)
{
    C17 c;
    return driverMain(c, argc, argv);
}
