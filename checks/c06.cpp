// C06 — a new note never displaces a sounding note while a chip channel is idle.
// Workload: long-lived note/pedal histories (up to 10 simulated minutes in a few hundred time advances, so the
// key-on/key-off ageing covers fresh, decayed and saturated values), chips 1..8, all four allocation modes,
// arpeggio on/off, instruments with delay_on/off 0..65535 and 40000 (fixed sustain), pedals.
// Oracle: relation between the H1 snapshots taken before and after every opn2_rt_noteOn (vel>0, playable).
#include "../sim/snapshot.hpp"

using namespace sim;

enum { Y_NOTE_ON = 0, Y_NOTE_OFF, Y_CC, Y_PATCH, Y_TICK, Y_ALLOC_MODE, Y_ARP, Y_COUNT };
static const char *yName(int k)
{
    static const char *n[] = { "noteOn", "noteOff", "cc", "patchChange", "tickEvents", "setChannelAllocMode", "setAutoArpeggio" };
    return k >= 0 && k < Y_COUNT ? n[k] : "?";
}

struct UserSnap { uint32_t loc; uint32_t sustained; bool operator<(const UserSnap &o) const { return loc != o.loc ? loc < o.loc : sustained < o.sustained; } bool operator==(const UserSnap &o) const { return loc == o.loc && sustained == o.sustained; } };
typedef std::vector<std::vector<UserSnap> > ChanSnap;

static ChanSnap snapUsers(OPN2_MIDIPlayer *dev)
{
    std::vector<OPNMIDIplay::OpnChannel> &cc = Acc::chipChannels(Acc::P(dev));
    ChanSnap s(cc.size());
    for(size_t c = 0; c < cc.size(); ++c)
    {
        for(OPNMIDIplay::OpnChannel::users_iterator j = cc[c].users.begin(); !j.is_end(); ++j)
        { UserSnap u; u.loc = ((uint32_t)j->value.loc.MidCh << 8) | j->value.loc.note; u.sustained = j->value.sustained; s[c].push_back(u); }
        std::sort(s[c].begin(), s[c].end());
    }
    return s;
}

class C06 : public Check
{
public:
    const char *id() { return "C06"; }
    const char *opName(int k) { return yName(k); }
    int quickRuns() { return 50000; }
    int quickSeconds() { return 90; }
    int thoroughSeconds() { return 900; }
    const char *rule()
    {
        return "each run = seeded history of 30..300 note/pedal/program/alloc-mode/arpeggio calls and time advances (0..30 s each, up to 10 simulated minutes) on 1..8 chips; before/after snapshots of every accepted note-on are related; "
               "distinct = distinct (idle-count bucket, held-only-count bucket, allocation mode, arpeggio, age-sign pattern of the channels) tuples at note-on time";
    }
    std::vector<std::string> realComponents() { return { "OPNMIDIplay voice allocator (goodness scoring, prepare/evacuate/kill), ageing in TickIterators" }; }
    std::vector<std::string> stubComponents() { return { "no audio is rendered: time advances through opn2_tickEvents (real iterators, no chip output needed)" }; }
    std::vector<std::string> requiredProbes() { return { "noteon_with_idle", "noteon_all_busy", "held_only_channel_taken", "releasing_same_instrument_reused", "saturated_age_seen" }; }

    void generate(Rng &r, Plan &p, bool thorough)
    {
        p.cfg["bankseed"] = (int64_t)r.below(300);
        p.cfg["chips"] = r.chance(0.6) ? (int64_t)r.range(1, 2) : (int64_t)r.range(3, 8);
        p.cfg["alloc"] = (int64_t)r.range(-1, 2);
        p.cfg["arp"] = (int64_t)r.below(2);
        int nch = (int)r.range(2, 4); std::vector<int> chans; for(int i = 0; i < nch; ++i) chans.push_back((int)r.below(16));
        int nk = (int)r.range(4, 14); std::vector<int> keys; for(int i = 0; i < nk; ++i) keys.push_back((int)r.range(30, 90));
        bool longRun = r.chance(0.3);
        int len = (int)(r.chance(0.7) ? r.range(30, 120) : r.range(120, thorough ? 300 : 220));
        for(int i = 0; i < len; ++i)
        {
            Op o; o.kind = (int)r.weighted({ 40, 18, 14, 5, 18, 2, 2 });
            int ch = chans[r.below(chans.size())], key = keys[r.below(keys.size())];
            switch(o.kind)
            {
            case Y_NOTE_ON: o.a[0] = ch; o.a[1] = key; o.a[2] = (int64_t)r.range(1, 127); break;
            case Y_NOTE_OFF: o.a[0] = ch; o.a[1] = key; break;
            case Y_CC: o.a[0] = ch; o.a[1] = r.pick<int>({ 64, 64, 64, 66, 123 }); o.a[2] = r.pick<int>({ 0, 127, 127 }); break;
            case Y_PATCH: o.a[0] = ch; o.a[1] = (int64_t)r.below(12); break;
            case Y_TICK: o.d = longRun ? r.pick<double>({ 0.0, 0.01, 0.1, 1.0, 5.0, 30.0, 30.0 }) : r.pick<double>({ 0.0, 0.001, 0.01, 0.04, 0.1, 0.4, 1.0, 5.0 }); break;
            case Y_ALLOC_MODE: o.a[0] = (int64_t)r.range(-1, 2); break;
            case Y_ARP: o.a[0] = (int64_t)r.below(2); break;
            }
            p.ops.push_back(o);
        }
    }

    void execute(const Plan &p, Run &run)
    {
        SimFsScope fs; g_fs.reset();
        std::vector<uint8_t> img = stdBankImage((uint64_t)p.get("bankseed"), 1, 1, p.get("bankseed") % 3 == 0);
        OPN2_MIDIPlayer *dev = opn2_init(44100);
        opn2_openBankData(dev, img.data(), (long)img.size());
        opn2_switchEmulator(dev, OPNMIDI_VGM_DUMPER);   // no audio is rendered in this check; cheapest core to construct
        opn2_switchEmulator(dev, OPNMIDI_EMU_GENS);
        opn2_setNumChips(dev, (int)p.get("chips", 1));
        opn2_setChannelAllocMode(dev, (int)p.get("alloc", -1));
        opn2_setAutoArpeggio(dev, (int)p.get("arp", 0));
        OPNMIDIplay *pl = Acc::P(dev);
        double fed = 0;
        for(size_t i = 0; i < p.ops.size() && !run.failed(); ++i)
        {
            const Op &o = p.ops[i];
            noteOp((int)i, o.kind);
            int ch = (int)o.a[0] & 15, key = (int)o.a[1] & 127;
            switch(o.kind)
            {
            case Y_NOTE_ON:
            {
                ChanSnap before = snapUsers(dev);
                uint32_t loc = ((uint32_t)ch << 8) | (uint32_t)key;
                size_t idle = 0, heldOnly = 0; bool locPresent = false; bool sat = false;
                std::vector<OPNMIDIplay::OpnChannel> &cc = Acc::chipChannels(pl);
                for(size_t c = 0; c < before.size(); ++c)
                {
                    if(before[c].empty()) ++idle;
                    if(before[c].size() == 1 && before[c][0].sustained != 0) ++heldOnly;
                    for(size_t k = 0; k < before[c].size(); ++k) if(before[c][k].loc == loc) locPresent = true;
                    for(OPNMIDIplay::OpnChannel::users_iterator j = cc[c].users.begin(); !j.is_end(); ++j) if(j->value.kon_time_until_neglible_us < -500000000ll) sat = true;
                }
                if(sat) run.count("saturated_age_seen");
                int ret = opn2_rt_noteOn(dev, (OPN2_UInt8)ch, (OPN2_UInt8)key, (OPN2_UInt8)(o.a[2] & 127));
                if(!ret) break; // blank instrument: nothing to place
                ChanSnap after = snapUsers(dev);
                OPNMIDIplay::MIDIchannel::notes_iterator ni = pl->m_midiChannels[(size_t)ch].find_activenote((unsigned)key);
                if(ni.is_end() || ni->value.chip_channels_count == 0) { run.fail("accepted-note-without-channel", yName(o.kind), "note-on returned 1 but the note holds no chip channel"); break; }
                unsigned cNew = ni->value.chip_channels[0].chip_chan;
                // age-sign pattern for the reach measure
                Hasher h; h.add(idle > 3 ? 3 : idle); h.add(heldOnly > 2 ? 2 : heldOnly); h.add((uint64_t)opn2_getChannelAllocMode(dev) + 1); h.add((uint64_t)opn2_getAutoArpeggio(dev)); h.add(sat);
                uint64_t ages = 0; for(size_t c = 0; c < cc.size() && c < 12; ++c) ages = ages * 3 + (cc[c].koff_time_until_neglible_us > 0 ? 1 : 0);
                h.add(ages); run.state(h.h);
                if(idle > 0)
                {
                    run.count("noteon_with_idle");
                    // the key's own previous instance is ended by the re-strike itself: its channel counts as free
                    size_t othersOnNew = 0; for(size_t k = 0; k < before[cNew].size(); ++k) if(before[cNew][k].loc != loc) ++othersOnNew;
                    if(othersOnNew != 0)
                    { run.fail("idle-channel-not-used", yName(o.kind), "an idle chip channel existed (" + std::to_string(idle) + " idle) but the note was placed on channel " + std::to_string(cNew) + " which had " + std::to_string(before[cNew].size()) + " user(s)"); break; }
                    if(cc[cNew].users.size() == 1 && cc[cNew].recent_ins == ni->value.chip_channels[0] && idle < before.size()) run.count("releasing_same_instrument_reused");
                    for(size_t c = 0; c < before.size() && !run.failed(); ++c)
                    {
                        if(c == cNew) continue;
                        std::vector<UserSnap> b, a;
                        for(size_t k = 0; k < before[c].size(); ++k) if(before[c][k].loc != loc) b.push_back(before[c][k]);
                        for(size_t k = 0; k < after[c].size(); ++k) if(after[c][k].loc != loc) a.push_back(after[c][k]);
                        if(!(a == b)) run.fail("bystander-displaced", yName(o.kind), "note-on with an idle channel available changed the users of chip channel " + std::to_string(c) + " (" + std::to_string(b.size()) + " -> " + std::to_string(a.size()) + ")");
                    }
                    (void)locPresent;
                }
                else
                {
                    run.count("noteon_all_busy");
                    if(heldOnly > 0)
                    {
                        bool hadKeyDown = false;
                        for(size_t k = 0; k < before[cNew].size(); ++k) if(before[cNew][k].sustained == 0 && before[cNew][k].loc != loc) hadKeyDown = true;
                        if(hadKeyDown) run.fail("key-down-stolen-before-held", yName(o.kind), "all channels busy, " + std::to_string(heldOnly) + " channel(s) held only by a released pedal-held note, but channel " + std::to_string(cNew) + " with a key still down was taken");
                        else if(before[cNew].size() == 1 && before[cNew][0].sustained != 0) run.count("held_only_channel_taken");
                    }
                }
                break;
            }
            case Y_NOTE_OFF: opn2_rt_noteOff(dev, (OPN2_UInt8)ch, (OPN2_UInt8)key); break;
            case Y_CC: opn2_rt_controllerChange(dev, (OPN2_UInt8)ch, (OPN2_UInt8)o.a[1], (OPN2_UInt8)o.a[2]); break;
            case Y_PATCH: opn2_rt_patchChange(dev, (OPN2_UInt8)ch, (OPN2_UInt8)(o.a[1] & 127)); break;
            case Y_TICK: if(fed + o.d <= 600.0) { opn2_tickEvents(dev, o.d, 0.0); fed += o.d; run.simSeconds += o.d; } break;
            case Y_ALLOC_MODE: opn2_setChannelAllocMode(dev, (int)o.a[0]); break;
            case Y_ARP: opn2_setAutoArpeggio(dev, (int)o.a[0]); break;
            }
            if(!run.failed() && !checkBookkeeping(dev, NULL, run, yName(o.kind), false)) break;
            run.log.add(occupancyHash(dev, false));
        }
        opn2_close(dev);
    }

    void shrinkOp(const Op &o, std::vector<Op> &out)
    {
        if(o.kind == Y_TICK && o.d > 0.01) { Op x = o; x.d = o.d / 2; out.push_back(x); }
    }
};

int main(int argc, char **argv)
{
    C06 c;
    return driverMain(c, argc, argv);
}
