// chain: C14R
// C14 (phase 1 of 3: determinism and isolation) — instances are deterministic and isolated, also across threads.
// Workload: 2-4 tasks, each with 1-2 instances and its own history (init, bank, emulator switch among all 9 ids,
// notes, song playback, generate, reset, close, re-init); the PRNG interleaves the tasks' calls at API-call
// granularity, biased so that one task's init/switchEmulator/reset/close lands between two renders of another.
// Oracle: the observed task's PCM and register stream (hash after every call) in the interleaved run - on one
// thread, or on real threads serialised by the baton, inside a worker process that has already executed hundreds
// of other runs - equal those of a SOLO run of the same history in a freshly exec'ed process.
// Phase 2 (checks/c14r.cpp, TSan build) looks for data races under the TSan-invisible baton; phase 3 (checks/c14v.cpp)
// runs a sample of the plans under valgrind memcheck (output depending on uninitialised memory).
#include "../sim/multitask.hpp"

extern "C" void opn2_set_vgm_out_path(const char *path);
using namespace sim;

class C14 : public Check
{
public:
    const char *id() { return "C14"; }
    const char *opName(int k) { return mtOpName(k); }
    int quickRuns() { return 1500; }
    int quickSeconds() { return 50; }
    int thoroughSeconds() { return 900; }
    int cpuBudgetSec() { return 60; }
    const char *rule()
    {
        return "each run = 2-4 task histories over all 9 emulator ids and one seeded interleaving at API-call granularity, executed (a) solo in a freshly exec'ed process, (b) interleaved on one thread or on real threads under the baton inside a long-lived worker; per-call hashes of the observed task's PCM and register stream compared; "
               "distinct = distinct (observer core, interferer core, interfering call kind, threaded?) tuples and distinct schedule prefixes (first 32 decisions)";
    }
    std::vector<std::string> realComponents() { return { "the whole library incl. all emulator cores' process-wide state (static tables, mode flags, error string)" }; }
    std::vector<std::string> stubComponents() { return { "stdio of the VGM dumper redirected into the per-process SimFS" }; }
    std::vector<std::string> requiredProbes() { return { "threaded_run", "single_thread_interleaving", "observer.0", "observer.1", "observer.2", "observer.3", "observer.4", "observer.5", "observer.6", "observer.7", "observer.8", "interferer_heavy_call_between_renders", "same_core_both_sides", "null_device_call" }; }

    void generate(Rng &r, Plan &p, bool thorough) { mtGenerate(r, p, thorough, false); }

    // Runs the plan in a freshly exec'ed process (mode "--solo": only the observed task's calls; "--inter": all tasks'
    // calls in schedule order, on one thread or on baton-serialised threads) and returns the observed task's marks.
    // A fresh process per execution makes every run a function of its plan alone: process-wide state left behind by
    // earlier runs of a worker (which is exactly what this property is about) cannot leak from one run into the next.
    static bool childMarks(const Plan &p, const char *mode, std::vector<uint64_t> &marks, std::map<std::string, uint64_t> &counters, double &simSeconds, std::string &err)
    {
        char path[256]; snprintf(path, sizeof path, "%s/C14.%s.%d.plan", tmpDir().c_str(), mode + 2, (int)getpid());
        char epath[256]; snprintf(epath, sizeof epath, "%s/C14.%s.%d.err", tmpDir().c_str(), mode + 2, (int)getpid());
        writeFile(path, planToString(p, NULL));
        char self[4096]; ssize_t n = readlink("/proc/self/exe", self, sizeof self - 1); self[n > 0 ? n : 0] = 0;
        std::string cmd = std::string(self) + " " + mode + " " + path + " 2>" + epath;
        FILE *pp = popen(cmd.c_str(), "r"); if(!pp) { err = "popen failed"; return false; }
        char line[512]; bool ok = false;
        while(fgets(line, sizeof line, pp))
        {
            if(line[0] == 'M') marks.push_back(strtoull(line + 2, NULL, 10));
            else if(line[0] == 'S') simSeconds += atof(line + 2);
            else if(line[0] == 'C') { char nm[256]; unsigned long long v = 0; if(sscanf(line + 2, "%255s %llu", nm, &v) == 2) counters[nm] += v; }
            else if(line[0] == 'E') ok = true;
        }
        int rc = pclose(pp); unlink(path);
        if(!ok) { std::string e; readFile(epath, e); size_t q = e.find("ERROR: "); if(q != std::string::npos) e = e.substr(q, 300); else if(e.size() > 300) e = e.substr(0, 300); for(size_t i = 0; i < e.size(); ++i) if(e[i] == '\n') e[i] = ' '; err = "process ended with status " + std::to_string(rc) + " " + e; }
        unlink(epath);
        return ok;
    }

    void execute(const Plan &p, Run &run)
    {
        SimFsScope fs; g_fs.reset();
        opn2_set_vgm_out_path("kek.vgm");
        const int nTasks = (int)p.get("tasks", 2);
        std::vector<uint64_t> ref, got; std::string err; std::map<std::string, uint64_t> cnt, cntSolo; double sim = 0, simSolo = 0;
        if(!childMarks(p, "--solo", ref, cntSolo, simSolo, err)) { run.fail("solo-run-failed", "solo", "the observed history alone, in a fresh process: " + err); return; }
        bool threaded = p.get("threaded", 0) != 0;
        if(!childMarks(p, "--inter", got, cnt, sim, err)) { run.fail("interleaved-run-died", std::string("core") + std::to_string(p.get("emu0", 0)) + "+" + std::to_string(p.get("emu1", 0)), "all tasks in schedule order, in a fresh process: " + err); return; }
        run.count(threaded ? "threaded_run" : "single_thread_interleaving");
        for(std::map<std::string, uint64_t>::iterator c = cnt.begin(); c != cnt.end(); ++c) run.counters[c->first] += c->second;
        run.simSeconds += sim;
        // probes
        run.count(("observer." + std::to_string(p.get("emu0", 0))).c_str()); if(p.get("emu0", 0) == p.get("emu1", 1)) run.count("same_core_both_sides");
        int lastObsRender = -1; for(size_t i = 0; i < p.ops.size(); ++i) { const Op &o = p.ops[i]; if(o.task == 0 && (o.kind == A_GENERATE || o.kind == A_PLAY)) { if(lastObsRender >= 0) { for(size_t k = (size_t)lastObsRender + 1; k < i; ++k) if(p.ops[k].task != 0 && (p.ops[k].kind == A_INIT || p.ops[k].kind == A_SWITCH_EMULATOR || p.ops[k].kind == A_RESET || p.ops[k].kind == A_CLOSE)) { run.count("interferer_heavy_call_between_renders"); break; } } lastObsRender = (int)i; } }
        Hasher pre; for(size_t i = 0; i < p.ops.size() && i < 32; ++i) pre.add((uint64_t)p.ops[i].task); run.state(pre.h);
        // compare the observed task call by call
        size_t n = std::min(got.size(), ref.size()); size_t d = 0; while(d < n && got[d] == ref[d]) ++d;
        if(d < n || got.size() != ref.size())
        {
            // which op of task 0 is that, and what did the others do since its previous op?
            size_t seen = 0, idx = p.ops.size(), prev = 0; for(size_t i = 0; i < p.ops.size(); ++i) if(p.ops[i].task == 0) { if(seen == d) { idx = i; break; } ++seen; prev = i; }
            std::string between; int interKind = -1; for(size_t k = prev + 1; k < idx && k < p.ops.size(); ++k) if(p.ops[k].task != 0) { between += std::string(apiOpName(p.ops[k].kind)) + " "; interKind = p.ops[k].kind; }
            Hasher st; st.add((uint64_t)p.get("emu0", 0)); st.add((uint64_t)p.get("emu1", 0)); st.add((uint64_t)(interKind + 1)); st.add(threaded); run.state(st.h);
            run.fail("output-depends-on-other-instances", std::string(idx < p.ops.size() ? apiOpName(p.ops[idx].kind) : "length") + ".core" + std::to_string(p.get("emu0", 0)),
                     "observed task (core " + std::to_string(p.get("emu0", 0)) + ") differs from its solo run at its call #" + std::to_string(d) + " (" + (idx < p.ops.size() ? apiOpName(p.ops[idx].kind) : "?") + "); other tasks (core " + std::to_string(p.get("emu1", 0)) + "...) did in between: " + (between.empty() ? "(nothing: earlier interference or process history)" : between) + (threaded ? " [threads]" : " [one thread]"));
        }
        Hasher st; st.add((uint64_t)p.get("emu0", 0)); st.add((uint64_t)p.get("emu1", 0)); st.add(threaded); run.state(st.h);
        for(size_t k = 0; k < got.size(); ++k) run.log.add(got[k]);
    }
};

int main(int argc, char **argv)
{
    if(argc > 2 && (std::string(argv[1]) == "--solo" || std::string(argv[1]) == "--inter"))
    {
        // one execution of a plan in this freshly exec'ed process: "--solo" = the observed task alone (reference),
        // "--inter" = every task in schedule order
        const bool solo = std::string(argv[1]) == "--solo";
        std::string text; Plan plan; if(!readFile(argv[2], text) || !planFromString(text, plan)) return 2;
        SimFsScope fs; g_fs.reset(); opn2_set_vgm_out_path("kek.vgm");
        std::vector<TaskCtx> tasks((size_t)plan.get("tasks", 2));
        for(size_t t = 0; t < tasks.size(); ++t) { tasks[t].id = (int)t; mtSetupWorld(tasks[t], plan); }
        tapInstall(true);
        if(solo) runInterleaved(plan, tasks, 0);
        else if(plan.get("threaded", 0) != 0) runThreaded(plan, tasks);
        else runInterleaved(plan, tasks, -1);
        for(size_t k = 0; k < tasks[0].marks.size(); ++k) __real_printf("M %llu\n", (unsigned long long)tasks[0].marks[k]);
        double sim = 0; std::map<std::string, uint64_t> cnt;
        for(size_t t = 0; t < tasks.size(); ++t) { sim += tasks[t].run.simSeconds; for(std::map<std::string, uint64_t>::iterator c = tasks[t].run.counters.begin(); c != tasks[t].run.counters.end(); ++c) cnt[c->first] += c->second; }
        __real_printf("S %.6f\n", sim);
        for(std::map<std::string, uint64_t>::iterator c = cnt.begin(); c != cnt.end(); ++c) __real_printf("C %s %llu\n", c->first.c_str(), (unsigned long long)c->second);
        __real_printf("E\n"); fflush(stdout);
        for(size_t t = 0; t < tasks.size(); ++t) tasks[t].world.closeAll();
        return 0;
    }
    C14 c;
    return driverMain(c, argc, argv);
}
