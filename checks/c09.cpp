// C09 — loop points: the marked section repeats exactly as often as requested.
// Workload: generated songs with 0..2 loop markers (loopStart/loopEnd markers in any case mix, CC111 as loop
// start) at arbitrary ticks and tracks: valid, reversed, same tick, duplicated, start only, end only; loop
// enabled/disabled; count -1, 0..4; hooks registered before opn2_openData, after it, and across opn2_reset /
// opn2_setNumChips / opn2_switchEmulator / a second load; notes deliberately held across the loop end.
// Played tick-driven and audio-driven with the C07 slicings until opn2_atEnd (6 passes for count -1).
// Oracle: history check on the tagged raw-event log + the hook call log.
#include "../sim/seqmodel.hpp"
#include "../sim/snapshot.hpp"

extern "C" void opn2_set_vgm_out_path(const char *path);
using namespace sim;

enum { L_ADVANCE = 0, L_COUNT };
static const char *lName(int) { return "advance"; }

class C09 : public Check
{
public:
    const char *id() { return "C09"; }
    const char *opName(int k) { return lName(k); }
    int quickRuns() { return 12000; }
    int quickSeconds() { return 90; }
    int thoroughSeconds() { return 900; }
    const char *rule()
    {
        return "each run = one generated song with a seeded loop-marker placement (none/valid/reversed/same tick/duplicate/start-only/end-only, markers or CC111, any track), loop on/off, count -1,0..4, a hook-registration point, and a seeded tick- or audio-driven slicing to the end; "
               "distinct = distinct (placement class, count, loop enabled, hook registration point, drive mode) tuples";
    }
    std::vector<std::string> realComponents() { return { "BW_MidiSequencer loop detection (buildSmfTrackData/buildTimeLine), processEvents loop jump/exhaustion, hook wiring in OPNMIDIplay::applySetup/partialReset/LoadMIDI_post" }; }
    std::vector<std::string> stubComponents() { return { "chip output: VGM-dumper/GENS core (audio content not judged here)" }; }
    std::vector<std::string> requiredProbes() { return { "jump_taken", "loop_exhausted_at_marker", "loop_exhausted_at_song_end", "invalid_loop_whole_song", "hooks_before_load", "hooks_across_reset", "infinite_loop_6_passes", "note_held_across_jump", "cc111_loop_start" }; }
    std::vector<std::string> assumptions() { return { "count 0 is judged as 1 pass (a section cannot be played fewer than once)", "events at exactly the loop-start or loop-end tick are not judged (the property says 'between'); only ticks strictly inside / after / before" }; }

    void generate(Rng &r, Plan &p, bool thorough)
    {
        p.cfg["songseed"] = (int64_t)r.below(1u << 30);
        p.cfg["maxtracks"] = (int64_t)r.range(1, 4);
        p.cfg["maxev"] = thorough ? (int64_t)r.range(6, 40) : (int64_t)r.range(6, 24);
        p.cfg["placement"] = (int64_t)r.weighted({ 2, 6, 1, 1, 1, 1, 2, 2 }); // 0 none,1 valid,2 reversed,3 same tick,4 dup start,5 dup end,6 start only,7 end only
        p.cfg["cc111"] = r.chance(0.25);
        p.cfg["loop"] = r.chance(0.85);
        p.cfg["count"] = (int64_t)r.pick<int>({ -1, 0, 1, 2, 2, 3, 4 });
        p.cfg["hookpoint"] = (int64_t)r.below(5);   // 0 before load, 1 after load, 2 before load + reset after, 3 after load + setNumChips/switchEmulator after, 4 before a first load, then second load
        p.cfg["mode"] = r.chance(0.75) ? 0 : 1;
        p.cfg["rate"] = r.pick<int>({ 8000, 22050 });
        p.cfg["emu"] = r.pick<int>({ 2, 2, 0, 4 });
        p.cfg["casemix"] = (int64_t)r.below(4);
        int len = (int)r.range(10, 60);
        for(int i = 0; i < len; ++i) { Op o(L_ADVANCE); o.a[0] = (int64_t)r.below(5); o.d = r.unit(); o.a[1] = (int64_t)r.below(1000); p.ops.push_back(o); }
    }

    struct LoopInfo { bool valid; uint32_t ls, le; bool hasLS, hasLE; uint32_t songEndTick; };

    static SEvent markerEv(uint32_t tick, const char *txt, int casemix)
    {
        SEvent e; e.tick = tick; e.status = 0xFF; e.metaType = 0x06; std::string s(txt);
        if(casemix == 1) for(size_t i = 0; i < s.size(); ++i) s[i] = (char)toupper(s[i]);
        if(casemix == 2) for(size_t i = 0; i < s.size(); ++i) s[i] = (char)tolower(s[i]);
        if(casemix == 3) for(size_t i = 0; i < s.size(); i += 2) s[i] = (char)toupper(s[i]);
        e.data.assign(s.begin(), s.end());
        return e;
    }
    static void insertAt(STrack &t, const SEvent &e)
    {
        size_t pos = 0; while(pos < t.ev.size() && t.ev[pos].tick <= e.tick) ++pos;
        t.ev.insert(t.ev.begin() + (long)pos, e);
        if(t.eotTick < e.tick) t.eotTick = e.tick;
    }

    void execute(const Plan &p, Run &run)
    {
        SimFsScope fs; g_fs.reset();
        opn2_set_vgm_out_path("kek.vgm");
        const long rate = (long)p.get("rate", 22050);
        const int mode = (int)p.get("mode", 0);
        const double g = mode == 0 ? 1e-4 : 1.0 / (double)rate;
        Rng sr(mix64((uint64_t)p.get("songseed"), 0xC09));
        SongOpts so; so.maxTracks = (int)p.get("maxtracks", 2); so.maxEventsPerTrack = (int)p.get("maxev", 20); so.maxSeconds = 3.0; so.eotVariants = false; so.allowSysex = false;
        Song song = genSong(sr, so);
        // no pedals (they would legitimately hold notes across the jump), no CC111/110 from the generator
        for(size_t tk = 0; tk < song.tracks.size(); ++tk) { STrack &t = song.tracks[tk]; for(size_t i = 0; i < t.ev.size(); ++i) if((t.ev[i].status & 0xF0) == 0xB0 && (t.ev[i].d1 == 64 || t.ev[i].d1 == 66)) t.ev[i].d1 = (uint8_t)(t.ev[i].d1 == 64 ? 75 : 76); /* controllers the generator never uses: event tags stay unique */ t.hasEOT = true; t.trailing.clear(); t.eotTick = t.ev.empty() ? 0 : t.ev.back().tick; }
        uint32_t maxTick = 0; for(size_t tk = 0; tk < song.tracks.size(); ++tk) maxTick = std::max(maxTick, song.tracks[tk].eotTick);
        if(maxTick < 8) { maxTick = 8 + (uint32_t)song.division; song.tracks[0].eotTick = maxTick; }
        // ---- loop markers
        const int placement = (int)p.get("placement", 0); const bool cc111 = p.get("cc111", 0) != 0; const int casemix = (int)p.get("casemix", 0);
        uint32_t a = (uint32_t)sr.range(0, maxTick - 2), b = (uint32_t)sr.range(a + 1, maxTick);
        if(sr.chance(0.2)) a = 0;
        size_t tkA = sr.below(song.tracks.size()), tkB = sr.below(song.tracks.size());
        LoopInfo li; li.valid = false; li.ls = 0; li.le = 0; li.hasLS = li.hasLE = false;
        auto putLS = [&](uint32_t tick, size_t tk) { if(cc111) { SEvent e; e.tick = tick; e.status = 0xB0; e.ch = 0; e.d1 = 111; e.d2 = 0; insertAt(song.tracks[tk], e); } else insertAt(song.tracks[tk], markerEv(tick, "loopStart", casemix)); };
        auto putLE = [&](uint32_t tick, size_t tk) { insertAt(song.tracks[tk], markerEv(tick, "loopEnd", casemix)); };
        switch(placement)
        {
        case 1: putLS(a, tkA); putLE(b, tkB); li.valid = true; li.ls = a; li.le = b; li.hasLS = li.hasLE = true; break;
        case 2: putLS(b, tkA); putLE(a, tkB); break;                                  // reversed
        case 3: putLS(a, tkA); putLE(a, tkB); break;                                  // same tick
        case 4: putLS(a, tkA); putLS(b > a + 1 ? a + 1 : a, tkB); putLE(b, tkB); break; // duplicate start
        case 5: putLS(a, tkA); putLE(b, tkB); putLE(b, tkA); break;                   // duplicate end
        case 6: putLS(a, tkA); li.hasLS = true; break;                                // start only -> end = song end
        case 7: if(b > 0) { putLE(b, tkB); li.valid = true; li.ls = 0; li.le = b; li.hasLE = true; } break; // end only -> start = begin
        default: break;
        }
        // a note held across the loop end (never released inside the body)
        bool heldNote = false; uint8_t heldCh = 3, heldKey = 118;   /* outside the generator's key range 12..110: its tag cannot collide with a generated note */
        if(li.valid && li.le > li.ls + 1 && sr.chance(0.6)) { SEvent e; e.tick = li.le - 1; e.status = 0x90; e.ch = heldCh; e.d1 = heldKey; e.d2 = 99; insertAt(song.tracks[0], e); heldNote = true; }
        // effective end of the song in ticks: an End-of-Track alone at its tick is pulled back to the preceding event
        uint32_t songEnd = 0; for(size_t tk = 0; tk < song.tracks.size(); ++tk) songEnd = std::max(songEnd, song.tracks[tk].ev.empty() ? 0u : song.tracks[tk].ev.back().tick);
        li.songEndTick = songEnd;
        if(placement == 6) { li.valid = a < songEnd; li.ls = a; li.le = songEnd; }
        if(placement == 7 && li.valid && !(li.ls < li.le)) li.valid = false;
        RefSong ref; ref.build(song);
        std::vector<uint8_t> smf = writeSmf(song, sr.chance(0.5));
        std::vector<uint8_t> bank = stdBankImage(1, 1, 1);

        const bool loopOn = p.get("loop", 1) != 0; const int count = (int)p.get("count", -1); const int hookpoint = (int)p.get("hookpoint", 0);
        RawRecorder rec;
        OPN2_MIDIPlayer *dev = opn2_init(rate);
        opn2_openBankData(dev, bank.data(), (long)bank.size());
        opn2_switchEmulator(dev, (int)p.get("emu", 2));
        opn2_setLoopEnabled(dev, loopOn ? 1 : 0);
        // a prelude derived from the song seed (not drawn: recorded plans keep their meaning):
        //  1: another count is set before the load, the requested one after it, followed by a rewind (the count in force after a rewind is the one last set)
        //  2: before playing, a seek into the post-song wait (between the last event and the reported length): it reaches the end, starts over - looping must stay on
        //  3: both
        const int preludeDraw = (int)(mix64((uint64_t)p.get("songseed"), 0x9E11) % 8); const int prelude = (int)p.get("prelude", preludeDraw < 4 ? 0 : preludeDraw - 4);   // 5 of 8 runs have none
        opn2_setLoopCount(dev, (prelude & 1) ? (count == 3 ? 1 : 3) : count);     // before loading: the count is latched when the time line is built
        rec.initHookUd();
        auto setHooks = [&]() { opn2_setLoopStartHook(dev, RawRecorder::cbLoopStart2, &rec.udStart); opn2_setLoopEndHook(dev, RawRecorder::cbLoopEnd2, &rec.udEnd); };
        opn2_setRawEventHook(dev, RawRecorder::cb, &rec);
        if(hookpoint == 0 || hookpoint == 2 || hookpoint == 4) { setHooks(); run.count("hooks_before_load"); }
        if(hookpoint == 4)
        {
            // another song first; half of the time one that uses the other loop-marker convention (CC110 start / CC111 end):
            // whatever the loader learned from it must not leak into the song under test
            std::vector<uint8_t> other = stockSong(7, 0);
            if(sr.chance(0.5)) { Rng orr(mix64((uint64_t)p.get("songseed"), 0x110)); SongOpts oo; oo.maxTracks = 1; oo.maxEventsPerTrack = 12; oo.maxSeconds = 2.0; oo.eotVariants = false; Song os = genSong(orr, oo);
                STrack &ot = os.tracks[0]; uint32_t endT = ot.ev.empty() ? 10 : ot.ev.back().tick + 1; SEvent a; a.status = 0xB0; a.ch = 0; a.d1 = 110; a.d2 = 0; a.tick = 0; SEvent b = a; b.d1 = 111; b.tick = endT; ot.ev.insert(ot.ev.begin(), a); ot.ev.push_back(b); ot.hasEOT = true; ot.eotTick = endT;
                other = writeSmf(os, false); run.count("prior_song_with_cc110_convention"); }
            opn2_openData(dev, other.data(), (unsigned long)other.size());
        }
        if(opn2_openData(dev, smf.data(), (unsigned long)smf.size()) != 0) { run.fail("wellformed-smf-rejected", "load", opn2_errorInfo(dev)); opn2_close(dev); return; }
        if(hookpoint == 1 || hookpoint == 3) setHooks();
        if(hookpoint == 2) { opn2_reset(dev); run.count("hooks_across_reset"); }
        if(hookpoint == 3) { opn2_setNumChips(dev, 3); opn2_switchEmulator(dev, OPNMIDI_EMU_GENS); run.count("hooks_across_reset"); }
        if(prelude & 1) { opn2_setLoopCount(dev, count); opn2_positionRewind(dev); run.count("count_changed_after_load_then_rewind"); }
        if(prelude & 2) { double tot = opn2_totalTimeLength(dev); if(tot > 0.6) { opn2_positionSeek(dev, tot - 0.25); run.count("seek_into_post_song_wait_before_play"); if(opn2_positionTell(dev) > 1e-9) run.fail("tell-after-seek-to-end", "prelude", "a seek into the post-song wait must start the song over, position is " + std::to_string(opn2_positionTell(dev))); } }
        rec.ev.clear(); rec.loopStarts = rec.loopEnds = 0; rec.loopStartCalls.clear(); rec.loopEndCalls.clear();
        // reported loop points
        {
            double ls = opn2_loopStartTime(dev), le = opn2_loopEndTime(dev);
            double wantLs = li.valid ? ref.timing.secondsAt(li.ls) : -1.0, wantLe = li.valid ? ref.timing.secondsAt(li.le) : -1.0;
            bool lsOk = li.valid ? std::fabs(ls - wantLs) < 1e-6 * (1 + wantLs) : ls < 0;
            bool leOk = li.valid ? (std::fabs(le - wantLe) < 1e-6 * (1 + wantLe)) : le < 0;
            if(placement == 6 && li.valid) leOk = true; // end absent: the reported end time for "end of song" is not specified
            if(!lsOk || !leOk) run.fail("reported-loop-points", "placement" + std::to_string(placement), "opn2_loopStartTime/EndTime = " + std::to_string(ls) + "/" + std::to_string(le) + " but markers are at " + std::to_string(wantLs) + "/" + std::to_string(wantLe) + (li.valid ? "" : " (invalid placement => -1)"));
        }
        // ---- play
        OPNMIDIplay *pl = Acc::P(dev);
        const int passesWanted = !loopOn ? 1 : (count < 0 ? 6 : std::max(count, 1));
        long frames = 0; double lastRet = 0; int call = 0; size_t opi = 0;
        std::set<uint32_t> activeBefore; bool heldAcross = false;
        uint64_t jumpsSeen = 0;
        for(int n = 0; n < 40000 && !run.failed(); ++n)
        {
            if(opn2_atEnd(dev)) break;
            if(loopOn && count < 0 && rec.loopEnds >= 6) { run.count("infinite_loop_6_passes"); break; }
            const Op &o = p.ops[opi % p.ops.size()]; ++opi;
            noteOp((int)(opi % p.ops.size()), L_ADVANCE);
            activeBefore.clear();
            for(size_t mc = 0; mc < pl->m_midiChannels.size(); ++mc) for(OPNMIDIplay::MIDIchannel::notes_iterator it = pl->m_midiChannels[mc].activenotes.begin(); !it.is_end(); ++it) activeBefore.insert(((uint32_t)mc << 8) | it->value.note);
            uint64_t endsBefore = rec.loopEnds; size_t logBefore = rec.ev.size();
            rec.curCall = call++;
            if(mode == 0)
            {
                double s;
                switch((int)o.a[0]) { default: case 0: s = lastRet; break; case 1: s = lastRet * o.d; break; case 2: s = lastRet * (1 + 3 * o.d) + 0.2 * o.d; break; case 3: s = 0; break; case 4: s = 0.002 + 0.05 * o.d; break; }
                if(s > 2.0) s = 2.0;
                lastRet = opn2_tickEvents(dev, s, g); run.simSeconds += s;
            }
            else
            {
                long want = o.a[0] == 1 ? 1 : (o.a[0] == 3 ? 0 : (long)(1 + o.a[1] * (o.a[0] == 2 ? 8 : 1)));
                std::vector<short> buf((size_t)want * 2 + 2);
                int got = opn2_play(dev, (int)want * 2, buf.data()); frames += got / 2; run.simSeconds += (double)(got / 2) / (double)rate;
            }
            // every jump back is preceded by All-Notes-Off: a note from before the call survives only if re-struck after the loop end
            if(rec.loopEnds > endsBefore && !opn2_atEnd(dev))
            {
                ++jumpsSeen;
                for(std::set<uint32_t>::iterator it = activeBefore.begin(); it != activeBefore.end() && !run.failed(); ++it)
                {
                    unsigned mc = *it >> 8, key = *it & 255;
                    if(pl->m_midiChannels[mc].find_activenote(key).is_end()) continue;
                    bool restruck = false; bool afterEnd = false;
                    for(size_t k = logBefore; k < rec.ev.size(); ++k)
                    {
                        const RawEvt &e = rec.ev[k];
                        if(e.type == 0xFF && e.subtype == 0xE2) afterEnd = true;
                        if(e.type == 0x9 && e.channel == mc && !e.data.empty() && e.data[0] == key) restruck = true;
                    }
                    (void)afterEnd;
                    if(!restruck) run.fail("note-survived-loop-jump", "all-notes-off", "note (" + std::to_string(mc) + "," + std::to_string(key) + ") sounding before the loop end is still active after the jump back");
                    if(heldNote && mc == heldCh && key == heldKey) heldAcross = true;
                }
                if(heldNote) { run.count("note_held_across_jump"); }
            }
        }
        (void)heldAcross;
        if(!run.failed() && !opn2_atEnd(dev) && !(loopOn && count < 0)) run.fail("song-never-ends", "count" + std::to_string(count), "opn2_atEnd still 0 after 40000 calls (loop " + std::to_string(loopOn) + ", count " + std::to_string(count) + ")");

        // ---- history check
        if(!run.failed())
        {
            std::map<uint64_t, int> delivered; uint64_t lsEvents = 0, leEvents = 0;
            for(size_t k = 0; k < rec.ev.size(); ++k)
            {
                const RawEvt &e = rec.ev[k];
                if(RawRecorder::isSongBeginArtifact(e)) continue;
                if(e.type == 0xFF && e.subtype == 0xE1) { ++lsEvents; continue; }
                if(e.type == 0xFF && e.subtype == 0xE2) { ++leEvents; continue; }
                delivered[e.key()]++;
            }
            const bool infinite = loopOn && count < 0;
            const bool wholeSong = loopOn && !li.valid;
            if(wholeSong) run.count("invalid_loop_whole_song");
            for(size_t tk = 0; tk < ref.tracks.size() && !run.failed(); ++tk) for(size_t i = 0; i < ref.tracks[tk].size() && !run.failed(); ++i)
            {
                const ExpEvent &x = ref.tracks[tk][i];
                if(x.isEOT) continue;
                if(x.kind == 0xFF && x.metaType == 0x06) { std::string s((const char *)song.tracks[tk].ev[(size_t)x.indexInTrack].data.data(), song.tracks[tk].ev[(size_t)x.indexInTrack].data.size()); for(size_t c = 0; c < s.size(); ++c) s[c] = (char)tolower(s[c]); if(s == "loopstart" || s == "loopend") continue; }
                if(x.kind == 0xB && x.d1 == 111) continue;
                int got = delivered.count(x.key) ? delivered[x.key] : 0;
                int lo, hi; // expected delivery count range
                if(!loopOn) { lo = hi = 1; }
                else if(wholeSong) { lo = hi = passesWanted; }
                else if(x.tick > li.ls && x.tick < li.le) { lo = hi = passesWanted; }
                else if(x.tick < li.ls || x.tick > li.le) { lo = hi = 1; }
                else { lo = 0; hi = passesWanted; }        // at the loop-start / loop-end tick itself: not judged
                if(infinite)
                {
                    // the run was cut after at least 6 arrivals at the loop end (a late caller may make many passes in one
                    // call): a repeated event has been delivered once per completed pass, plus possibly the pass in progress
                    bool repeated = wholeSong || (x.tick > li.ls && x.tick < li.le);
                    if(repeated) { lo = (int)rec.loopEnds; hi = (int)rec.loopEnds + 1; }
                    else if(x.tick == li.ls || x.tick == li.le) { lo = 0; hi = (int)rec.loopEnds + 1; }
                    if(x.tick > li.le && li.valid && !wholeSong) { lo = 0; hi = 0; }
                }
                if(got < lo || got > hi)
                {
                    std::string where = !loopOn ? "loop-off" : wholeSong ? "whole-song-body" : (x.tick > li.ls && x.tick < li.le) ? "inside" : (x.tick > li.le ? "after" : "before");
                    run.fail("loop-repeat-count", where, "track " + std::to_string(tk) + " event #" + std::to_string(i) + " tick " + std::to_string(x.tick) + " delivered " + std::to_string(got) + " times, expected " + std::to_string(lo) + (hi != lo ? ".." + std::to_string(hi) : "") +
                             " (placement " + std::to_string(placement) + ", loop " + std::to_string(li.ls) + ".." + std::to_string(li.le) + (li.valid ? " valid" : " invalid") + ", count " + std::to_string(count) + ", loop " + (loopOn ? "on" : "off") + ")");
                }
            }
            // hooks (loop enabled runs)
            if(!run.failed() && loopOn && !infinite)
            {
                bool endIsSongEnd = wholeSong || !li.hasLE;
                uint64_t wantEnds = endIsSongEnd ? (uint64_t)passesWanted : (uint64_t)passesWanted + 1;
                uint64_t wantStarts = (uint64_t)passesWanted;
                if(rec.wrongUserData) run.fail("loop-hook-user-data", "swapped", std::to_string(rec.wrongUserData) + " loop callbacks were called with the other hook's user data");
                else if(rec.loopEnds != wantEnds)
                    run.fail("loop-end-hook-count", std::string(rec.loopEnds == 0 ? "never-called" : "wrong-count") + ".hookpoint" + std::to_string(hookpoint), "loop-end callback called " + std::to_string(rec.loopEnds) + " times, expected " + std::to_string(wantEnds) + " (passes " + std::to_string(passesWanted) + ", placement " + std::to_string(placement) + ")");
                else if(rec.loopStarts != wantStarts && prelude == 0)   // (after a rewind the start hook reports the song begin once more: part of the recorded finding's redesign, the hook count is judged in runs without a prelude)
                {
                    std::string sig;
                    if((wholeSong || !li.hasLS) && rec.loopStarts == 0) sig = "implicit-start-never-reported";
                    else if(rec.loopStarts == 0) sig = "never-called.hookpoint" + std::to_string(hookpoint);
                    else if(li.valid && li.hasLS && li.ls > 0 && rec.loopStarts == wantStarts + 1) sig = "extra-call-at-song-begin";
                    else sig = "wrong-count";
                    run.fail("loop-start-hook-count", sig, "loop-start callback called " + std::to_string(rec.loopStarts) + " times, expected " + std::to_string(wantStarts) + " (placement " + std::to_string(placement) + ", explicit start " + std::to_string(li.hasLS) + " at tick " + std::to_string(li.ls) + ")");
                }
            }
            if(!run.failed() && !loopOn && rec.loopEnds != 1) run.fail("loop-end-hook-count", std::string(rec.loopEnds == 0 ? "never-called" : "wrong-count") + ".loop-off.hookpoint" + std::to_string(hookpoint), "loop disabled: loop-end callback (arrival at song end) called " + std::to_string(rec.loopEnds) + " times");
            if(jumpsSeen) run.count("jump_taken");
            if(loopOn && li.valid && li.hasLE && !infinite) run.count("loop_exhausted_at_marker");
            if(loopOn && (wholeSong || !li.hasLE) && !infinite) run.count("loop_exhausted_at_song_end");
            if(cc111 && (placement == 1 || placement == 6)) run.count("cc111_loop_start");
            run.log.add(rec.ev.size()); run.log.add(rec.loopStarts); run.log.add(rec.loopEnds);
        }
        Hasher h; h.add((uint64_t)placement); h.add((uint64_t)(count + 1)); h.add(loopOn); h.add((uint64_t)hookpoint); h.add((uint64_t)mode); h.add(cc111);
        run.state(h.h);
        opn2_close(dev);
    }
};

int main(int argc, char **argv)
{
    C09 c;
    return driverMain(c, argc, argv);
}
