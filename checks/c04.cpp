// C04 — voice-allocation bookkeeping stays consistent after every call.
// Workload: real-time and sequencer-driven histories over a deliberately small alphabet (2-3 MIDI channels,
// 3-6 keys, 1-2 chips) so polyphony overflows, arpeggio, pedals, bank reloads, chip-count/emulator changes
// collide within a few ops; time advances in scheduler-chosen slices (0 .. 30 s).
// Oracle: invariants I0..I6 of sim/snapshot.hpp after every op (internal state via hook H1, chip key
// state reconstructed from the register tap H2).
#include "../sim/snapshot.hpp"
#include "../sim/songgen.hpp"

using namespace sim;

class C04 : public Check
{
public:
    const char *id() { return "C04"; }
    const char *opName(int k) { return apiOpName(k); }
    int quickRuns() { return 30000; }
    int quickSeconds() { return 90; }
    int thoroughSeconds() { return 900; }
    int cpuBudgetSec() { return 20; }
    const char *rule()
    {
        return "each run = one seeded history of 20..400 calls over a small alphabet (<=3 MIDI channels incl. 9, <=6 keys, 1..2 chips, pedals, arpeggio, bank reload/chip changes with live notes, time slices 0..30 s); "
               "invariants I0-I6 evaluated after every call; distinct = distinct canonical chip-channel occupancy patterns (multiset of #users/sustain bits/releasing) x arpeggio flag";
    }
    std::vector<std::string> realComponents() { return { "OPNMIDIplay voice allocator, MIDI channel state, sequencer, OPN2 register layer, emulator cores (Gens/MAME/VGM dumper mostly)" }; }
    std::vector<std::string> stubComponents() { return { "none (audio rendered only in short slices; most time advances through opn2_tickEvents, which runs the real iterators)" }; }
    std::vector<std::string> requiredProbes() { return { "polyphony_overflow", "arpeggio_multiuser_channel", "pedal_held_user", "sostenuto_held_user", "bank_reload_with_live_notes", "chip_change_with_live_notes", "ttl_deferred_off" }; }

    void generate(Rng &r, Plan &p, bool thorough)
    {
        p.cfg["rate"] = r.pick<int>({ 8000, 22050, 44100, 48000 });
        p.cfg["bankseed"] = (int64_t)r.below(500);
        p.cfg["songseed"] = (int64_t)r.below(500);
        int chips = (int)r.range(1, 2);
        std::vector<int> chans = { (int)r.below(9), 9 }; if(r.chance(0.5)) chans.push_back((int)r.range(10, 15));
        std::vector<int> keys; int nk = (int)r.range(3, 6); for(int i = 0; i < nk; ++i) keys.push_back((int)r.range(30, 90));
        bool arp = r.chance(0.5);
        p.ops.push_back(Op(A_INIT, p.cfg["rate"]));
        p.ops.push_back(Op(A_OPEN_BANK_DATA, (int64_t)r.below(3)));
        p.ops.push_back(Op(A_SWITCH_EMULATOR, r.pick<int>({ 2, 2, 0, 7, 4 })));
        p.ops.push_back(Op(A_SET_NUM_CHIPS, chips));
        p.ops.push_back(Op(A_SET_AUTO_ARP, arp));
        if(r.chance(0.3)) p.ops.push_back(Op(A_SET_CHAN_ALLOC, (int64_t)r.range(-1, 2)));
        bool seqRun = r.chance(0.25);
        if(seqRun) p.ops.push_back(Op(A_OPEN_DATA, (int64_t)r.below(2)));
        int len = (int)(r.chance(0.7) ? r.range(20, 120) : r.range(120, thorough ? 400 : 250));
        std::vector<int> w(A_COUNT, 0);
        w[A_NOTE_ON] = 40; w[A_NOTE_OFF] = 18; w[A_CONTROLLER] = 22; w[A_PATCH] = 6; w[A_TICK_EVENTS] = 14; w[A_GENERATE] = 3; w[A_PLAY] = seqRun ? 3 : 0;
        w[A_PANIC] = 1; w[A_RT_RESET_STATE] = 1; w[A_RESET] = 1; w[A_SET_NUM_CHIPS] = 1; w[A_SWITCH_EMULATOR] = 1; w[A_SET_CHIP_TYPE] = 1;
        w[A_OPEN_BANK_DATA] = 1; w[A_SET_AUTO_ARP] = 1; w[A_PITCH_BEND] = 3; w[A_BANK_MSB] = 1; w[A_BANK_LSB] = 1; w[A_SET_INSTRUMENT] = 1; w[A_GET_BANK] = 1;
        w[A_SYSEX] = 1; w[A_SEEK] = seqRun ? 1 : 0; w[A_REWIND] = seqRun ? 1 : 0; w[A_SET_CHANNEL_ENABLED] = seqRun ? 1 : 0; w[A_CHAN_AFTERTOUCH] = 1; w[A_NOTE_AFTERTOUCH] = 1;
        w[A_SET_RUN_AT_PCM_RATE] = 1; w[A_OPEN_DATA] = seqRun ? 1 : 0;
        for(int i = 0; i < len; ++i)
        {
            Op o; o.kind = (int)r.weighted(w);
            int ch = chans[r.below(chans.size())], key = keys[r.below(keys.size())];
            switch(o.kind)
            {
            case A_NOTE_ON: o.a[0] = ch; o.a[1] = key; o.a[2] = r.chance(0.9) ? (int64_t)r.range(1, 127) : 0; break;
            case A_NOTE_OFF: o.a[0] = ch; o.a[1] = key; break;
            case A_CONTROLLER: o.a[0] = ch; o.a[1] = r.pick<int>({ 64, 64, 64, 66, 66, 120, 121, 123, 7, 11, 10, 74, 1, 5, 65, 0, 32 });
                o.a[2] = (o.a[1] == 64 || o.a[1] == 66 || o.a[1] == 65) ? r.pick<int>({ 0, 63, 64, 127 }) : (int64_t)r.below(128);
                if(o.a[1] == 0 || o.a[1] == 32) o.a[2] = r.pick<int>({ 0, 0, 1, 2, 127, 126 }); break;
            case A_PATCH: o.a[0] = ch; o.a[1] = (int64_t)r.pick<int>({ 0, 1, 2, 3, 4, 5, 8, 127 }); break;
            case A_TICK_EVENTS: o.d = r.pick<double>({ 0.0, 1e-6, 0.001, 0.01, 0.02, 0.029, 0.03, 0.031, 0.05, 0.07, 0.2, 0.5, 1.0, 5.0, 30.0 }); o.a[0] = (int64_t)r.below(4); break;
            case A_GENERATE: case A_PLAY: o.a[0] = (int64_t)r.pick<int>({ 0, 2, 64, 512, 1024, 1026, 2048, 4410 }); break;
            case A_SET_NUM_CHIPS: o.a[0] = (int64_t)r.range(1, 3); break;
            case A_SWITCH_EMULATOR: o.a[0] = r.pick<int>({ 0, 2, 4, 7, 5 }); break;
            case A_SET_CHIP_TYPE: o.a[0] = (int64_t)r.range(-1, 1); break;
            case A_OPEN_BANK_DATA: o.a[0] = (int64_t)r.below(3); break;
            case A_SET_AUTO_ARP: o.a[0] = (int64_t)r.below(2); break;
            case A_PITCH_BEND: o.a[0] = ch; o.a[1] = (int64_t)r.below(16384); break;
            case A_BANK_MSB: case A_BANK_LSB: o.a[0] = ch; o.a[1] = r.pick<int>({ 0, 0, 1, 2, 127, 126 }); break;
            case A_GET_BANK: o.a[0] = (int64_t)r.below(2); o.a[1] = r.pick<int>({ 0, 1, 2 }); o.a[2] = r.pick<int>({ 0, 1 }); o.a[3] = r.pick<int>({ 0, 1, 3 }); break;
            case A_SET_INSTRUMENT: o.a[0] = (int64_t)r.below(4); o.a[1] = r.chance(0.5) ? (int64_t)r.pick<int>({ 0, 1, 2, 3, 4, 5, 8, 127 }) : (int64_t)key; o.a[2] = (int64_t)r.below(1u << 30); o.a[3] = 0; o.a[4] = 0; break;
            case A_SYSEX: o.blob = genSysEx(r); break;
            case A_SEEK: o.d = r.real(0, 5.0); break;
            case A_SET_CHANNEL_ENABLED: o.a[0] = ch; o.a[1] = (int64_t)r.below(2); break;
            case A_CHAN_AFTERTOUCH: o.a[0] = ch; o.a[1] = (int64_t)r.below(128); break;
            case A_NOTE_AFTERTOUCH: o.a[0] = ch; o.a[1] = key; o.a[2] = (int64_t)r.below(128); break;
            case A_SET_RUN_AT_PCM_RATE: o.a[0] = (int64_t)r.below(2); break;
            case A_OPEN_DATA: o.a[0] = (int64_t)r.below(2); break;
            default: break;
            }
            p.ops.push_back(o);
        }
    }

    void execute(const Plan &p, Run &run)
    {
        SimFsScope fs; g_fs.reset();
        tapInstall(true);
        World w; w.run = &run; w.maxInst = 1;
        uint64_t bs = (uint64_t)p.get("bankseed"), ss = (uint64_t)p.get("songseed");
        w.bankImages.push_back(stdBankImage(bs, 1, 1, true));          // few distinct timbres: opens the arpeggio path
        w.bankImages.push_back(stdBankImage(bs + 1, 2, 2, false, 0.3)); // blanks + extra banks
        w.bankImages.push_back(stdBankImage(bs + 2, 1, 1, false));
        for(int k = 0; k < 2; ++k) w.songImages.push_back(stockSong(ss + (uint64_t)k, k));
        TapCursor cur;
        for(size_t i = 0; i < p.ops.size() && !run.failed(); ++i)
        {
            const Op &o = p.ops[i];
            noteOp((int)i, o.kind);
            size_t liveBefore = 0; bool hadLive = false;
            if(!w.inst.empty())
            {
                OPNMIDIplay *pl = Acc::P(w.inst[0]->dev);
                for(size_t mc = 0; mc < pl->m_midiChannels.size(); ++mc) liveBefore += pl->m_midiChannels[mc].activenotes.size();
                hadLive = liveBefore > 0;
            }
            ApiResult res = execApi(w, o);
            if(!res.executed || w.inst.empty()) { g_tap.recs.clear(); cur.next = 0; continue; }
            OPN2_MIDIPlayer *dev = w.inst[0]->dev;
            OPNMIDIplay *pl = Acc::P(dev);
            cur.consume(pl->m_synth.get());
            g_tap.recs.clear(); cur.next = 0;
            if(!checkBookkeeping(dev, &cur.keys, run, apiOpName(o.kind))) break;
            // probes and reach
            std::vector<OPNMIDIplay::OpnChannel> &cc = Acc::chipChannels(pl);
            size_t busy = 0;
            for(size_t c = 0; c < cc.size(); ++c)
            {
                size_t n = cc[c].users.size(); if(n) ++busy;
                if(n > 1) run.count("arpeggio_multiuser_channel");
                for(OPNMIDIplay::OpnChannel::users_iterator j = cc[c].users.begin(); !j.is_end(); ++j)
                {
                    if(j->value.sustained & OPNMIDIplay::OpnChannel::LocationData::Sustain_Pedal) run.count("pedal_held_user");
                    if(j->value.sustained & OPNMIDIplay::OpnChannel::LocationData::Sustain_Sostenuto) run.count("sostenuto_held_user");
                }
            }
            if(o.kind == A_NOTE_ON && o.a[2] > 0 && busy == cc.size()) run.count("polyphony_overflow");
            if(o.kind == A_OPEN_BANK_DATA && hadLive) run.count("bank_reload_with_live_notes");
            if((o.kind == A_SET_NUM_CHIPS || o.kind == A_SWITCH_EMULATOR || o.kind == A_SET_CHIP_TYPE || o.kind == A_RESET) && hadLive) run.count("chip_change_with_live_notes");
            for(size_t mc = 0; mc < pl->m_midiChannels.size(); ++mc)
                for(OPNMIDIplay::MIDIchannel::notes_iterator it = pl->m_midiChannels[mc].activenotes.begin(); !it.is_end(); ++it)
                    if(it->value.isOnExtendedLifeTime) run.count("ttl_deferred_off");
            run.state(occupancyHash(dev, opn2_getAutoArpeggio(dev) != 0));
            run.log.add(occupancyHash(dev, false));
        }
        w.closeAll();
        tapInstall(false);
    }

    void shrinkOp(const Op &o, std::vector<Op> &out)
    {
        if(o.kind == A_TICK_EVENTS && o.d > 0.001) { Op x = o; x.d = o.d / 2; out.push_back(x); x.d = 0.001; out.push_back(x); }
        if((o.kind == A_GENERATE || o.kind == A_PLAY) && o.a[0] > 2) { Op x = o; x.a[0] = 2; out.push_back(x); }
        if(o.kind == A_CONTROLLER && o.a[2] != 127 && o.a[2] != 0) { Op x = o; x.a[2] = o.a[2] >= 64 ? 127 : 0; out.push_back(x); }
        if(o.kind == A_NOTE_ON && o.a[2] != 100 && o.a[2] != 0) { Op x = o; x.a[2] = 100; out.push_back(x); }
    }
};

int main(int argc, char **argv)
{
    C04 c;
    return driverMain(c, argc, argv);
}
