// C07 — the sequencer delivers every file event once, in order, at the right time.
// Workload: generated SMF format 0/1 (1..8 tracks, random divisions, running status, all channel event kinds,
// SysEx F0/F7, metas, tempo changes in track 0, zero-delta clusters, End-of-Track alone / with company), every
// event unique in content. Schedule space: tempo multiplier, track on/off/solo and channel masks set before and
// during playback, tick-driven slicing (exact returned delay, early, late multi-row, zero-length, fixed steps,
// granularity 1e-6..0.1) and audio-driven slicing (request sizes 2..70000 samples with 1-frame probe windows).
// Oracle: RefSong (own SMF reader-free model built from the abstract song) + history checks on the raw-event log.
#include "../sim/seqmodel.hpp"
#include "../sim/engine.hpp"
#include "../sim/simfs.hpp"

extern "C" void opn2_set_vgm_out_path(const char *path);
using namespace sim;

enum { P_ADVANCE = 0, P_SET_TRACK, P_SET_CHANNEL, P_COUNT };
static const char *pName(int k) { static const char *n[] = { "advance", "setTrackOptions", "setChannelEnabled" }; return k >= 0 && k < P_COUNT ? n[k] : "?"; }

struct CallRec { double fBefore, fAfter, g; long framesBefore, framesAfter; std::vector<bool> trackOn; std::vector<bool> chanOn; };

class C07 : public Check
{
public:
    const char *id() { return "C07"; }
    const char *opName(int k) { return pName(k); }
    int quickRuns() { return 16000; }
    int quickSeconds() { return 90; }
    int thoroughSeconds() { return 900; }
    const char *rule()
    {
        return "each run = one generated SMF (1..8 tracks, unique-content events, tempo map in track 0) played to its end under one seeded schedule: tempo multiplier, track/channel masks before and during playback, tick-driven or audio-driven slicing policy per call; "
               "history checks: exactly-once, per-track order, same-tick precedences, delivery time window, length, tell; distinct = distinct (track count, #tempo changes bucket, drive mode, slicing-policy set, mask pattern class, multiplier) tuples";
    }
    std::vector<std::string> realComponents() { return { "BW_MidiSequencer (parser, sortEvents, buildTimeLine, processEvents, Tick), opn2_play audio-side delay/carry/tick_skip bookkeeping, OPNMIDIplay event sinks" }; }
    std::vector<std::string> stubComponents() { return { "chip output: VGM-dumper core (writes into SimFS) for most audio-driven runs; GENS for the rest" }; }
    std::vector<std::string> requiredProbes() { return { "late_multi_row_call", "zero_length_call", "tempo_change_between_rows_of_other_track", "eot_alone_rule", "tick_skip_path", "mask_changed_during_play", "solo_track", "probe_window_1frame" }; }
    std::vector<std::string> assumptions() { return { "the sequencer's own song-begin pseudo event (0xFF/0x01, empty) on the raw hook is not a file event and is ignored", "time comparisons use eps = 1e-6 (1+t) s of song time; audio-driven windows +-2 frames" }; }

    void generate(Rng &r, Plan &p, bool thorough)
    {
        p.cfg["songseed"] = (int64_t)r.below(1u << 30);
        p.cfg["maxtracks"] = r.chance(0.5) ? (int64_t)r.range(1, 3) : (int64_t)r.range(4, 8);
        p.cfg["maxev"] = thorough ? (int64_t)r.range(5, 60) : (int64_t)r.range(5, 35);
        p.cfg["tempo"] = (int64_t)r.below(2);
        p.cfg["devices"] = (int64_t)r.chance(0.3);   // tracks bound to MIDI devices/ports (meta FF 09): channel events go to channel + 16 x device
        int mode = r.chance(0.7) ? 0 : 1;
        p.cfg["mode"] = mode;
        p.cfg["mult"] = r.chance(0.5) ? 2 : (int64_t)r.below(5);    // index into {0.25,0.5,1,2,4}
        p.cfg["rate"] = r.pick<int>({ 8000, 11025, 22050, 44100 });
        p.cfg["emu"] = r.chance(0.8) ? 7 : 2;
        p.cfg["gidx"] = (int64_t)r.below(5);
        p.cfg["running"] = (int64_t)r.below(2);
        // masks before playback
        if(r.chance(0.35)) { int n = (int)r.range(1, 3); for(int i = 0; i < n; ++i) p.ops.push_back(Op(P_SET_TRACK, (int64_t)r.below(8), r.pick<int>({ 1, 2, 2, 3 }))); }
        if(r.chance(0.3)) { int n = (int)r.range(1, 4); for(int i = 0; i < n; ++i) p.ops.push_back(Op(P_SET_CHANNEL, (int64_t)r.below(16), 0)); }
        int len = (int)r.range(5, thorough ? 200 : 80);
        // slicing policy set for the run (swarm): a random subset of policies
        std::vector<int> pol; for(int k = 0; k < 6; ++k) if(r.chance(0.5)) pol.push_back(k); if(pol.empty()) pol.push_back(0);
        bool midMasks = r.chance(0.3);
        for(int i = 0; i < len; ++i)
        {
            if(midMasks && r.chance(0.08)) { if(r.chance(0.5)) p.ops.push_back(Op(P_SET_TRACK, (int64_t)r.below(8), r.pick<int>({ 1, 2, 3, 3 }))); else p.ops.push_back(Op(P_SET_CHANNEL, (int64_t)r.below(16), (int64_t)r.below(2))); continue; }
            Op o(P_ADVANCE); o.a[0] = pol[r.below(pol.size())]; o.d = r.unit(); o.a[1] = (int64_t)r.below(1000);
            p.ops.push_back(o);
        }
    }

    static Song makeSong(const Plan &p)
    {
        Rng r(mix64((uint64_t)p.get("songseed"), 0xC07));
        SongOpts o; o.maxTracks = (int)p.get("maxtracks", 3); o.maxEventsPerTrack = (int)p.get("maxev", 30); o.tempoChanges = p.get("tempo", 1) != 0;
        o.maxSeconds = 8.0; o.eotVariants = false;
        Song s = genSong(r, o);
        if(p.get("devices", 0)) addDeviceMetas(s, r);
        // well-formed End-of-Track variants only: with company (delta 0) or alone at its own tick
        for(size_t tk = 0; tk < s.tracks.size(); ++tk)
        {
            STrack &t = s.tracks[tk]; uint32_t last = t.ev.empty() ? 0 : t.ev.back().tick;
            t.hasEOT = true; t.trailing.clear();
            t.eotTick = r.chance(0.5) ? last : last + (uint32_t)r.range(1, (int64_t)s.division * 4);
        }
        return s;
    }

    void execute(const Plan &p, Run &run)
    {
        SimFsScope fs; g_fs.reset();
        opn2_set_vgm_out_path("kek.vgm");
        static const double mults[5] = { 0.25, 0.5, 1.0, 2.0, 4.0 };
        static const double grans[5] = { 1e-6, 1e-4, 1e-3, 0.01, 0.1 };
        const double mult = mults[p.get("mult", 2) % 5];
        const long rate = (long)p.get("rate", 22050);
        const int mode = (int)p.get("mode", 0);
        const double g = mode == 0 ? grans[p.get("gidx", 0) % 5] : 1.0 / (double)rate;
        Song song = makeSong(p);
        RefSong ref; ref.build(song);
        if(getenv("VERIF_DEBUG"))
        {
            fprintf(stderr, "song: format %d division %d tracks %zu\n", song.format, song.division, song.tracks.size());
            for(size_t tk = 0; tk < ref.tracks.size(); ++tk) { fprintf(stderr, " track %zu (eotTick %u hasEOT %d):\n", tk, song.tracks[tk].eotTick, (int)song.tracks[tk].hasEOT);
                for(size_t i = 0; i < ref.tracks[tk].size(); ++i) { const ExpEvent &x = ref.tracks[tk][i]; fprintf(stderr, "   #%zu tick %u t=%.6f kind %02x/%02x ch %d d %d %d%s\n", i, x.tick, x.time, x.kind, x.metaType, x.ch, x.d1, x.d2, x.isEOT ? " EOT" : ""); } }
        }
        std::vector<uint8_t> smf = writeSmf(song, p.get("running", 0) != 0);
        std::vector<uint8_t> bank = stdBankImage(1, 1, 1);
        OPN2_MIDIPlayer *dev = opn2_init(rate);
        opn2_openBankData(dev, bank.data(), (long)bank.size());
        opn2_switchEmulator(dev, (int)p.get("emu", 7));
        opn2_setNumChips(dev, 2);
        RawRecorder rec;
        opn2_setRawEventHook(dev, RawRecorder::cb, &rec);
        opn2_setLoopEnabled(dev, 0);
        if(opn2_openData(dev, smf.data(), (unsigned long)smf.size()) != 0)
        { run.fail("wellformed-smf-rejected", "load", std::string("generated SMF rejected: ") + opn2_errorInfo(dev)); opn2_close(dev); return; }
        opn2_setTempo(dev, mult);
        const size_t nTracks = song.tracks.size();
        if(opn2_trackCount(dev) != nTracks) run.fail("track-count", "load", "opn2_trackCount " + std::to_string(opn2_trackCount(dev)) + " != " + std::to_string(nTracks));
        {
            double len = opn2_totalTimeLength(dev);
            if(std::fabs(len - ref.length) > 1e-6 * (1 + ref.length)) run.fail("reported-length", "load", "opn2_totalTimeLength " + std::to_string(len) + " but latest delivery + 1 s = " + std::to_string(ref.length));
        }
        std::vector<bool> trackOn(nTracks, true), chanOn(16, true); long solo = -1;
        auto effTracks = [&]() { std::vector<bool> v(nTracks); for(size_t t = 0; t < nTracks; ++t) v[t] = trackOn[t] && (solo < 0 || (long)t == solo); return v; };
        std::vector<CallRec> calls;
        double F = 0; long frames = 0; double lastRet = 0.0;
        OPNMIDIplay *pl = Acc::P(dev);
        // expected-event lookup
        std::map<uint64_t, std::pair<int, int> > byKey;
        size_t tempoCount = 0; bool eotAlone = false, tempoBetween = false;
        for(size_t tk = 0; tk < nTracks; ++tk) for(size_t i = 0; i < ref.tracks[tk].size(); ++i)
        {
            const ExpEvent &x = ref.tracks[tk][i];
            if(!x.isEOT) byKey[x.key] = std::make_pair((int)tk, (int)i);
            if(x.kind == 0xFF && x.metaType == 0x51) ++tempoCount;
            if(x.isEOT && song.tracks[tk].eotTick > (song.tracks[tk].ev.empty() ? 0u : song.tracks[tk].ev.back().tick)) eotAlone = true;
        }
        if(nTracks > 1 && tempoCount) for(size_t i = 0; i < ref.tracks[0].size(); ++i) if(ref.tracks[0][i].metaType == 0x51 && ref.tracks[0][i].kind == 0xFF)
        {
            bool same = false; for(size_t tk = 1; tk < nTracks; ++tk) for(size_t k = 0; k < ref.tracks[tk].size(); ++k) if(ref.tracks[tk][k].tick == ref.tracks[0][i].tick) same = true;
            if(!same) tempoBetween = true;
        }
        if(eotAlone) run.count("eot_alone_rule");
        if(tempoBetween) run.count("tempo_change_between_rows_of_other_track");
        // next expected event time (for probe windows / exact policies), in song seconds
        std::vector<double> allTimes; for(size_t tk = 0; tk < nTracks; ++tk) for(size_t i = 0; i < ref.tracks[tk].size(); ++i) allTimes.push_back(ref.tracks[tk][i].time);
        std::sort(allTimes.begin(), allTimes.end());
        uint64_t policyMask = 0; bool maskChangedDuringPlay = false; bool anySolo = false;

        auto doAdvance = [&](int policy, double u, int64_t aux) -> bool
        {
            CallRec c; c.fBefore = F; c.framesBefore = frames; c.g = g; c.trackOn = effTracks(); c.chanOn = chanOn;
            rec.curCall = (int)calls.size();
            if(mode == 0)
            {
                double s;
                switch(policy)
                {
                default: case 0: s = lastRet / mult; break;                                   // exact returned delay
                case 1: s = lastRet / mult * u; break;                                        // early caller
                case 2: s = lastRet / mult * (1.0 + u * 4.0) + u * 0.3; run.count("late_multi_row_call"); break; // late caller
                case 3: s = 0.0; run.count("zero_length_call"); break;
                case 4: s = 0.001 + u * 0.05; break;                                          // fixed cadence
                case 5: s = (aux % 7 == 0) ? 2.0 * u : g * (0.1 + u); break;                  // jittery: tiny steps and occasional stalls
                }
                if(s < 0) s = 0; if(s > 5.0) s = 5.0;
                lastRet = opn2_tickEvents(dev, s, g);
                F += s * mult; run.simSeconds += s;
                double tell = opn2_positionTell(dev);
                if(!opn2_atEnd(dev) && std::fabs(tell - F) > 1e-6 * (1 + F)) { run.fail("position-tell", "tick", "opn2_positionTell " + std::to_string(tell) + " but fed song time " + std::to_string(F)); return false; }
            }
            else
            {
                long n; // frames
                double realNow = (double)frames / (double)rate * mult; // song time rendered so far
                std::vector<double>::iterator nx = std::upper_bound(allTimes.begin(), allTimes.end(), realNow + 1e-9);
                long toNext = nx == allTimes.end() ? rate : (long)(((*nx - realNow) / mult) * (double)rate);
                switch(policy)
                {
                default: case 0: n = toNext > 600 ? toNext - 600 : 1; if(n == 1) run.count("probe_window_1frame"); break; // approach, then 1-frame probes
                case 1: n = 1; run.count("probe_window_1frame"); break;
                case 2: n = (long)(aux % 5 == 0 ? 35000 : 1 + (aux % 2000)); break;
                case 3: n = 0; run.count("zero_length_call"); break;
                case 4: n = (long)r512(aux); break;
                case 5: n = 256 + (long)(u * 512); break;
                case 6: n = 4096; break;
                }
                if(n > 35000) n = 35000;
                std::vector<short> buf((size_t)n * 2 + 2);
                int got = opn2_play(dev, (int)n * 2, buf.data());
                if(got < 0 || got > n * 2 || (got & 1)) { run.fail("play-return", "audio", "opn2_play(" + std::to_string(n * 2) + ") returned " + std::to_string(got)); return false; }
                frames += got / 2; run.simSeconds += (double)(got / 2) / (double)rate;
                if(pl->m_setup.tick_skip_samples_delay > 0) run.count("tick_skip_path");
                F = (double)frames / (double)rate * mult;
            }
            c.fAfter = F; c.framesAfter = frames;
            calls.push_back(c);
            // disabled channels carry no notes
            // (a drum hit that was sounding when its channel was switched off may ring out its 30 ms minimum life: it is already released)
            for(int ch = 0; ch < 16; ++ch) if(!chanOn[(size_t)ch])
                for(OPNMIDIplay::MIDIchannel::notes_iterator ni = pl->m_midiChannels[(size_t)ch].activenotes.begin(); !ni.is_end(); ++ni)
                    if(!ni->value.isOnExtendedLifeTime)
                    { run.fail("disabled-channel-note", "mask", "MIDI channel " + std::to_string(ch) + " is disabled but holds an active note (key " + std::to_string(ni->value.note) + ")"); return false; }
            policyMask |= 1ull << policy;
            return true;
        };

        bool started = false;
        for(size_t i = 0; i < p.ops.size() && !run.failed(); ++i)
        {
            const Op &o = p.ops[i];
            noteOp((int)i, o.kind);
            if(o.kind == P_ADVANCE) { started = true; if(!opn2_atEnd(dev)) doAdvance((int)o.a[0], o.d, o.a[1]); }
            else if(o.kind == P_SET_TRACK)
            {
                size_t tk = (size_t)o.a[0] % (nTracks + 1); unsigned opt = (unsigned)o.a[1];
                bool unsolo = (tk == nTracks);
                size_t arg = unsolo ? ~(size_t)0 : tk;
                if(unsolo && opt != OPNMIDI_TrackOption_Solo) continue;
                int rc = opn2_setTrackOptions(dev, arg, opt);
                if(rc != 0) { run.fail("setTrackOptions-failed", "mask", "valid track " + std::to_string(tk) + " option " + std::to_string(opt) + " returned " + std::to_string(rc)); break; }
                if(opt == OPNMIDI_TrackOption_On) trackOn[tk] = true; else if(opt == OPNMIDI_TrackOption_Off) trackOn[tk] = false; else { solo = unsolo ? -1 : (long)tk; anySolo = true; run.count("solo_track"); }
                if(started) { maskChangedDuringPlay = true; run.count("mask_changed_during_play"); }
            }
            else if(o.kind == P_SET_CHANNEL)
            {
                int ch = (int)o.a[0] & 15;
                if(opn2_setChannelEnabled(dev, (size_t)ch, (int)o.a[1]) != 0) { run.fail("setChannelEnabled-failed", "mask", "channel " + std::to_string(ch)); break; }
                chanOn[(size_t)ch] = o.a[1] != 0;
                if(started) { maskChangedDuringPlay = true; run.count("mask_changed_during_play"); }
            }
        }
        // drain: play to the end with the exact-delay policy (bounded number of calls)
        noteOp((int)p.ops.size(), P_ADVANCE);
        for(int k = 0; k < 60000 && !run.failed() && !opn2_atEnd(dev); ++k) doAdvance(mode == 0 ? 0 : 6, 0.5, 3);
        if(!run.failed() && !opn2_atEnd(dev)) run.fail("song-never-ends", "drain", "opn2_atEnd still 0 after 60000 further calls; fed song time " + std::to_string(F) + " of length " + std::to_string(ref.length));

        // ---- history checks on the raw-event log
        if(!run.failed())
        {
            std::vector<std::vector<int> > deliveredCall(nTracks);
            std::vector<std::vector<int> > deliveredPos(nTracks);   // position in the raw log
            for(size_t tk = 0; tk < nTracks; ++tk) { deliveredCall[tk].assign(ref.tracks[tk].size(), -1); deliveredPos[tk].assign(ref.tracks[tk].size(), -1); }
            std::vector<int> eotCalls;
            for(size_t k = 0; k < rec.ev.size() && !run.failed(); ++k)
            {
                const RawEvt &e = rec.ev[k];
                if(RawRecorder::isSongBeginArtifact(e)) continue;
                if(e.type == 0xFF && e.subtype == 0x2F) { eotCalls.push_back(e.call); continue; }
                std::map<uint64_t, std::pair<int, int> >::iterator it = byKey.find(e.key());
                if(it == byKey.end()) { run.fail("spurious-event", "type" + std::to_string(e.type), "delivered event type " + std::to_string(e.type) + "/" + std::to_string(e.subtype) + " ch " + std::to_string(e.channel) + " data " + toHex(e.data) + " is not in the file"); break; }
                int tk = it->second.first, idx = it->second.second;
                if(deliveredCall[(size_t)tk][(size_t)idx] >= 0) { run.fail("event-delivered-twice", "kind" + std::to_string(ref.tracks[(size_t)tk][(size_t)idx].kind), "track " + std::to_string(tk) + " event #" + std::to_string(idx) + " delivered twice"); break; }
                deliveredCall[(size_t)tk][(size_t)idx] = e.call; deliveredPos[(size_t)tk][(size_t)idx] = (int)k;
            }
            const double rateD = (double)rate;
            for(size_t tk = 0; tk < nTracks && !run.failed(); ++tk)
            {
                int lastPos = -1; uint32_t lastTick = 0;
                for(size_t i = 0; i < ref.tracks[tk].size() && !run.failed(); ++i)
                {
                    const ExpEvent &x = ref.tracks[tk][i];
                    if(x.isEOT) continue;
                    int call = deliveredCall[tk][i];
                    bool timing0 = (tk == 0 && x.kind == 0xFF && x.metaType == 0x51); // tempo events of track 0 are never gated
                    // legal delivery window in call indices
                    double eps = 1e-6 * (1 + x.time);
                    int kmin = -1, kmax = -1;
                    for(size_t c = 0; c < calls.size(); ++c)
                    {
                        bool reach = mode == 0 ? (calls[c].fAfter >= x.time - calls[c].g / 2 - eps) : ((double)calls[c].framesAfter >= x.time / mult * rateD - 512 - 2);
                        if(kmin < 0 && reach) kmin = (int)c;
                        bool must = mode == 0 ? (calls[c].fAfter >= x.time + eps) : ((double)calls[c].framesBefore > x.time / mult * rateD + 2);
                        if(must) { kmax = mode == 0 ? (int)c : (int)c - 1; break; }
                    }
                    if(kmin < 0) kmin = (int)calls.size();          // never reached: nothing is due
                    if(kmax < 0) kmax = (int)calls.size() - 1;
                    bool enAll = true, enNone = true;
                    for(int c = kmin; c <= kmax && c < (int)calls.size(); ++c) { bool en = timing0 || calls[(size_t)c].trackOn[tk]; if(en) enNone = false; else enAll = false; }
                    if(kmin > kmax) { enAll = enNone = false; }
                    std::string what = "track " + std::to_string(tk) + " event #" + std::to_string(i) + " (kind " + std::to_string(x.kind) + (x.kind == 0xFF ? "/" + std::to_string(x.metaType) : "") + ", tick " + std::to_string(x.tick) + ", t=" + std::to_string(x.time) + ")";
                    if(call < 0)
                    {
                        if(enAll && kmin <= kmax) { run.fail("event-missing", "kind" + std::to_string(x.kind), what + " of an enabled track was never delivered"); break; }
                        continue;
                    }
                    if(enNone && kmin <= kmax && !timing0) { run.fail("disabled-track-event-delivered", "kind" + std::to_string(x.kind), what + " belongs to a disabled/non-solo track but was delivered"); break; }
                    if(call < kmin) { run.fail("event-early", mode == 0 ? "tick" : "audio", what + " delivered in call " + std::to_string(call) + (mode == 0 ? " ending at song time " + std::to_string(calls[(size_t)call].fAfter) : " ending at frame " + std::to_string(calls[(size_t)call].framesAfter) + " (due frame " + std::to_string(x.time / mult * rateD) + ")")); break; }
                    if(call > kmax && kmax >= 0) { run.fail("event-late", mode == 0 ? "tick" : "audio", what + " delivered in call " + std::to_string(call) + " but was due by call " + std::to_string(kmax) + (mode == 0 ? " (song time " + std::to_string(calls[(size_t)kmax].fAfter) + ")" : " (frame " + std::to_string(calls[(size_t)kmax].framesAfter) + ", due frame " + std::to_string(x.time / mult * rateD) + ")")); break; }
                    // per-track order across ticks
                    int pos = deliveredPos[tk][i];
                    if(lastPos >= 0 && x.tick > lastTick && pos < lastPos) { run.fail("order-across-ticks", "kind" + std::to_string(x.kind), what + " delivered before an event of an earlier tick of the same track"); break; }
                    if(x.tick >= lastTick) { if(pos > lastPos || x.tick > lastTick) { lastPos = std::max(lastPos, pos); lastTick = x.tick; } }
                }
                // same-tick rule for one key: its note-ons and note-offs at one tick arrive in file order, except that the note-off
                // ending a note that sounded before the tick comes first (zero-length and re-struck notes keep on -> off -> on ...)
                for(size_t i = 0; i < ref.tracks[tk].size() && !run.failed(); ++i)
                {
                    const ExpEvent &a = ref.tracks[tk][i]; if(a.isEOT || (a.kind != 0x8 && a.kind != 0x9)) continue;
                    bool first = true; for(size_t q = i; q-- > 0 && ref.tracks[tk][q].tick == a.tick;) { const ExpEvent &z = ref.tracks[tk][q]; if(!z.isEOT && (z.kind == 0x8 || z.kind == 0x9) && z.ch == a.ch && z.d1 == a.d1) { first = false; break; } }
                    if(!first) continue;
                    std::vector<size_t> grp; for(size_t q = i; q < ref.tracks[tk].size() && ref.tracks[tk][q].tick == a.tick; ++q) { const ExpEvent &z = ref.tracks[tk][q]; if(!z.isEOT && (z.kind == 0x8 || z.kind == 0x9) && z.ch == a.ch && z.d1 == a.d1 && deliveredPos[tk][q] >= 0) grp.push_back(q); }
                    if(grp.size() < 2) continue;
                    std::vector<size_t> want; for(size_t q = 0; q < grp.size(); ++q) if(ref.tracks[tk][grp[q]].soundingOff) want.push_back(grp[q]);
                    for(size_t q = 0; q < grp.size(); ++q) if(!ref.tracks[tk][grp[q]].soundingOff) want.push_back(grp[q]);
                    run.count("same_tick_on_off_group");
                    for(size_t q = 1; q < want.size(); ++q) if(deliveredPos[tk][want[q - 1]] > deliveredPos[tk][want[q]])
                    {
                        std::string seq; std::vector<std::pair<int, size_t> > byPos; for(size_t z = 0; z < grp.size(); ++z) byPos.push_back(std::make_pair(deliveredPos[tk][grp[z]], grp[z])); std::sort(byPos.begin(), byPos.end());
                        for(size_t z = 0; z < byPos.size(); ++z) seq += (ref.tracks[tk][byPos[z].second].kind == 0x9 ? "on#" : "off#") + std::to_string(byPos[z].second) + " ";
                        run.fail("same-tick-note-on-off-order", ref.tracks[tk][want[q]].kind == 0x8 ? "off-misplaced" : "on-misplaced", "track " + std::to_string(tk) + " tick " + std::to_string(a.tick) + " key " + std::to_string(a.d1) + " ch " + std::to_string(a.ch) + ": delivered " + seq + "(file order is ascending #; a note-off that ends an older note goes first)");
                        break;
                    }
                }
                // same-tick rules
                for(size_t i = 0; i < ref.tracks[tk].size() && !run.failed(); ++i)
                {
                    const ExpEvent &a = ref.tracks[tk][i]; if(a.isEOT || deliveredPos[tk][i] < 0) continue;
                    for(size_t j = i + 1; j < ref.tracks[tk].size() && ref.tracks[tk][j].tick == a.tick && !run.failed(); ++j)
                    {
                        const ExpEvent &b = ref.tracks[tk][j]; if(b.isEOT || deliveredPos[tk][j] < 0) continue;
                        int pa = deliveredPos[tk][i], pb = deliveredPos[tk][j];
                        bool sameKind = a.kind == b.kind && (a.kind != 0xFF || a.metaType == b.metaType) && a.kind != 0x8;
                        if(sameKind && pa > pb) run.fail("same-tick-file-order", "kind" + std::to_string(a.kind), "track " + std::to_string(tk) + " tick " + std::to_string(a.tick) + ": events #" + std::to_string(i) + " and #" + std::to_string(j) + " of the same kind swapped");
                        // controllers and program changes before note-ons (either file order)
                        if((a.kind == 0xB || a.kind == 0xC) && b.kind == 0x9 && pa > pb) run.fail("same-tick-controller-after-noteon", "cc-first", "track " + std::to_string(tk) + " tick " + std::to_string(a.tick));
                        if(a.kind == 0x9 && (b.kind == 0xB || b.kind == 0xC) && pb > pa) run.fail("same-tick-controller-after-noteon", "noteon-first-in-file", "track " + std::to_string(tk) + " tick " + std::to_string(a.tick) + ": controller/program #" + std::to_string(j) + " delivered after note-on #" + std::to_string(i));
                        // note-offs of already sounding notes before note-ons
                        if(a.kind == 0x8 && a.soundingOff && b.kind == 0x9 && pa > pb) run.fail("same-tick-noteoff-after-noteon", "off-first", "track " + std::to_string(tk) + " tick " + std::to_string(a.tick));
                        if(a.kind == 0x9 && b.kind == 0x8 && b.soundingOff && pb > pa) run.fail("same-tick-noteoff-after-noteon", "on-first-in-file", "track " + std::to_string(tk) + " tick " + std::to_string(a.tick) + ": note-off #" + std::to_string(j) + " of a sounding note delivered after note-on #" + std::to_string(i));
                    }
                }
            }
            // ---- where the events went: with every track and channel enabled, the controller state of every (device, channel) at the
            // end of the song is the one the delivered events of the tracks bound to that device produce (channel + 16 x device)
            if(!run.failed() && !maskChangedDuringPlay && !anySolo)
            {
                bool allOn = true; for(size_t t = 0; t < nTracks; ++t) if(!trackOn[t]) allOn = false; for(int c = 0; c < 16; ++c) if(!chanOn[(size_t)c]) allOn = false;
                if(allOn)
                {
                    std::vector<std::pair<int, std::pair<size_t, size_t> > > order;
                    for(size_t tk = 0; tk < nTracks; ++tk) for(size_t i = 0; i < ref.tracks[tk].size(); ++i) if(deliveredPos[tk][i] >= 0) order.push_back(std::make_pair(deliveredPos[tk][i], std::make_pair(tk, i)));
                    std::sort(order.begin(), order.end());
                    struct ChState { int volume, expression, panning, patch, bend; };
                    std::map<std::string, size_t> devIndex; std::vector<size_t> curDev(nTracks, 0); std::map<size_t, ChState> st;
                    auto stateOf = [&](size_t midCh) -> ChState & { std::map<size_t, ChState>::iterator it = st.find(midCh); if(it == st.end()) { ChState d; d.volume = 100; d.expression = 127; d.panning = 64; d.patch = 0; d.bend = 0; it = st.insert(std::make_pair(midCh, d)).first; } return it->second; };
                    for(size_t q = 0; q < order.size(); ++q)
                    {
                        size_t tk = order[q].second.first; const ExpEvent &x = ref.tracks[tk][order[q].second.second]; const SEvent *se = NULL;
                        if(x.kind == 0xFF && x.metaType == 0x09 && !x.isEOT) { se = &song.tracks[tk].ev[(size_t)x.indexInTrack]; std::string nm(se->data.begin(), se->data.end()); if(!devIndex.count(nm)) { size_t n = devIndex.size(); devIndex[nm] = n; } curDev[tk] = devIndex[nm]; continue; }
                        size_t midCh = curDev[tk] * 16 + x.ch;
                        if(x.kind == 0xB) { ChState &c = stateOf(midCh); if(x.d1 == 7) c.volume = x.d2; else if(x.d1 == 11) c.expression = x.d2; else if(x.d1 == 10) c.panning = x.d2; }
                        else if(x.kind == 0xC) stateOf(midCh).patch = x.d1;
                        else if(x.kind == 0xE) stateOf(midCh).bend = ((int)x.d1 + (int)x.d2 * 128) - 8192;
                    }
                    if(!devIndex.empty()) run.count("multi_device_song");
                    for(std::map<size_t, ChState>::iterator it = st.begin(); it != st.end() && !run.failed(); ++it)
                    {
                        if(it->first >= pl->m_midiChannels.size()) { run.fail("device-channel-missing", "devices", "events were sent to MIDI channel " + std::to_string(it->first) + " (device " + std::to_string(it->first / 16) + ") but the player has only " + std::to_string(pl->m_midiChannels.size()) + " channels"); break; }
                        const OPNMIDIplay::MIDIchannel &mc = pl->m_midiChannels[it->first]; const ChState &c = it->second;
                        if(mc.volume != c.volume || mc.expression != c.expression || mc.panning != c.panning || mc.patch != c.patch || mc.bend != c.bend)
                            run.fail("event-reached-wrong-channel", devIndex.empty() ? "single-device" : "multi-device", "at the end of the song MIDI channel " + std::to_string(it->first % 16) + " of device " + std::to_string(it->first / 16) + " has volume/expression/pan/program/bend " +
                                     std::to_string(mc.volume) + "/" + std::to_string(mc.expression) + "/" + std::to_string(mc.panning) + "/" + std::to_string(mc.patch) + "/" + std::to_string(mc.bend) + ", the delivered events of its tracks give " +
                                     std::to_string(c.volume) + "/" + std::to_string(c.expression) + "/" + std::to_string(c.panning) + "/" + std::to_string(c.patch) + "/" + std::to_string(c.bend));
                    }
                }
            }
            // End-of-Track deliveries: one per track that was enabled when its end came (multiset by count)
            if(!run.failed() && !maskChangedDuringPlay)
            {
                std::vector<bool> en = effTracks(); size_t want = 0; for(size_t tk = 0; tk < nTracks; ++tk) if(en[tk]) ++want;
                if(eotCalls.size() != want) run.fail("end-of-track-count", "eot", std::to_string(eotCalls.size()) + " End-of-Track deliveries for " + std::to_string(want) + " enabled tracks");
            }
            // the song ends when the latest track ends: fed song time at atEnd is at least the reported length - 1 s
            if(!run.failed() && mode == 0 && F + 1e-6 < ref.length - 1.0 - g) run.fail("ended-early", "end", "opn2_atEnd at song time " + std::to_string(F) + " but the last delivery is at " + std::to_string(ref.length - 1.0));
        }
        Hasher h; h.add(nTracks); h.add(tempoCount > 3 ? 3 : tempoCount); h.add((uint64_t)mode); h.add(policyMask); h.add(anySolo); h.add(maskChangedDuringPlay); h.add((uint64_t)p.get("mult", 2));
        size_t off = 0; for(size_t t = 0; t < nTracks; ++t) if(!trackOn[t]) ++off; h.add(off > 2 ? 2 : off);
        run.state(h.h);
        run.log.add(rec.ev.size()); for(size_t k = 0; k < rec.ev.size(); ++k) { run.log.add(rec.ev[k].key()); run.log.add((uint64_t)rec.ev[k].call); }
        opn2_close(dev);
    }

    static long r512(int64_t aux) { static const long v[] = { 511, 512, 513, 1023, 1024, 1025, 2, 3 }; return v[aux % 8]; }

    void shrinkOp(const Op &o, std::vector<Op> &out)
    {
        if(o.kind == P_ADVANCE && o.a[0] != 0) { Op x = o; x.a[0] = 0; out.push_back(x); }
    }
};

int main(int argc, char **argv)
{
    C07 c;
    return driverMain(c, argc, argv);
}
