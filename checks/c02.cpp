// C02 — untrusted bank data is rejected or loaded safely; loaded banks are playable.
// Workload: WOPN images from the harness's own writer (versions 1 and 2; 0..4 melodic/percussion banks incl.
// the zero-count case; extreme instrument fields: note offset over the whole int16 range, drum key 0..255,
// operator bytes 0..255, delays 0/1/40000/65535) and OPNI images, damaged by storage faults; raw random
// images behind each magic. Direct calls to WOPN_LoadBankFromMem / WOPN_LoadInstFromMem on an exact-size
// heap copy, and opn2_openBankData / opn2_openBankFile (SimFS + libc faults). For every accepted bank and
// for instruments written with opn2_setInstrument: a play history over all keys, bends, RPN ranges,
// controllers with values 0..255, programs 0..255, aftertouch, followed by opn2_generate / opn2_tickEvents.
// Oracle: defined return codes only; ASan/bounds clean; CPU watchdog (the octave search must end); no abort.
#include "../sim/apiops.hpp"
#include "../sim/formats.hpp"
extern "C" {
#include "wopn/wopn_file.h"
}

using namespace sim;

enum { W_LOAD_BANK_MEM = 0, W_LOAD_INST_MEM, W_OPEN_BANK, W_SET_INS, W_PLAY, W_COUNT };
static const char *wName(int k) { static const char *n[] = { "WOPN_LoadBankFromMem", "WOPN_LoadInstFromMem", "openBank", "setInstrument", "playHistory" }; return k >= 0 && k < W_COUNT ? n[k] : "?"; }

class C02 : public Check
{
public:
    const char *id() { return "C02"; }
    const char *opName(int k) { return wName(k); }
    int quickRuns() { return 60000; }
    int quickSeconds() { return 90; }
    int thoroughSeconds() { return 1200; }
    int cpuBudgetSec() { return 20; }
    const char *rule()
    {
        return "each run = 1-3 bank/instrument images (own writer output incl. extreme fields and zero counts + storage faults, or random bytes behind a valid magic) through the four loaders (two direct on an exact-size block, openBankData, openBankFile on SimFS with libc faults), instruments written via the API, and for every accepted bank a seeded play history; "
               "distinct = distinct (loader, image source, version, bank counts, outcome/error code, extreme-field classes reaching note-on) tuples";
    }
    std::vector<std::string> realComponents() { return { "wopn_file.c loaders, OPNMIDIplay::LoadBank, cvt_generic_to_FMIns, note-on/bend/controller/volume-model paths, OPN2::noteOn/touchNote, GENS/MAME audio" }; }
    std::vector<std::string> stubComponents() { return { "libc stdio replaced by SimFS" }; }
    std::vector<std::string> requiredProbes() { return { "bank_accepted", "bank_rejected", "inst_accepted", "inst_rejected", "err.1", "err.2", "err.4", "zero_bank_count", "version1", "extreme_note_offset_played", "fault.truncate", "fault.bitflip", "fault.shortread", "fault.tellfail", "setInstrument_played" }; }

    static std::vector<uint8_t> genBankImage(Rng &r, int &src)
    {
        src = (int)r.weighted({ 60, 25, 15 });
        if(src == 0)
        {
            BankGenOpts o; o.version = r.chance(0.8) ? 2 : 1; o.nMel = (int)r.weighted({ 2, 6, 2, 1, 1 }); o.nPerc = (int)r.weighted({ 2, 6, 2, 1, 1 }); o.extreme = r.chance(0.6); o.blankProb = r.chance(0.5) ? 0.2 : 0.0;
            return writeWopn(genWopn(r, o));
        }
        std::vector<uint8_t> v;
        const char *magic = r.chance(0.7) ? "WOPN2-B2NK" : (r.chance(0.5) ? "WOPN2-BANK" : "WOPN2-BXNK");
        v.insert(v.end(), magic, magic + 10); v.push_back(0);
        if(src == 1)
        {
            // header fields from boundary classes, body random
            if(magic[7] == '2') putLE16(v, (unsigned)r.pick<int>({ 0, 1, 2, 2, 2, 3, 0xFFFF }));
            putBE16(v, (unsigned)r.pick<int>({ 0, 1, 1, 2, 3, 255, 0xFFFF })); putBE16(v, (unsigned)r.pick<int>({ 0, 1, 1, 2, 255, 0xFFFF }));
            v.push_back((uint8_t)r.below(256));
            size_t n = r.chance(0.7) ? (size_t)r.below(400) : (size_t)r.range(8000, 20000);
            for(size_t i = 0; i < n; ++i) v.push_back((uint8_t)r.below(256));
        }
        else { size_t n = (size_t)r.below(40); for(size_t i = 0; i < n; ++i) v.push_back((uint8_t)r.below(256)); }
        return v;
    }
    static std::vector<uint8_t> genInstImage(Rng &r)
    {
        std::vector<uint8_t> v;
        int ver = r.chance(0.7) ? 2 : 1;
        const char *magic = r.chance(0.85) ? (ver == 2 ? "WOPN2-IN2T" : "WOPN2-INST") : "WOPN2-INXT";
        v.insert(v.end(), magic, magic + 10); v.push_back(0);
        if(ver == 2) putLE16(v, (unsigned)r.pick<int>({ 2, 2, 2, 1, 0, 3, 0xFFFF }));
        v.push_back((uint8_t)r.below(3));
        GenIns in; fillIns(r, in, (unsigned)r.below(128), 0, 0, true);
        std::vector<uint8_t> body; writeGenIns(body, in, ver, false);
        if(r.chance(0.3)) body.resize(r.below(body.size() + 1));
        if(r.chance(0.2)) for(int i = 0; i < 7; ++i) body.push_back((uint8_t)r.below(256));
        v.insert(v.end(), body.begin(), body.end());
        return v;
    }

    void generate(Rng &r, Plan &p, bool thorough)
    {
        p.cfg["rate"] = r.pick<int>({ 8000, 22050, 44100 });
        p.cfg["emu"] = r.pick<int>({ 2, 2, 0, 7 });
        p.cfg["volmodel"] = (int64_t)r.below(6);
        int n = (int)r.range(1, 3);
        for(int k = 0; k < n; ++k)
        {
            Op o; int kind = (int)r.weighted({ 25, 15, 45, 15 });
            o.kind = kind;
            if(kind == W_LOAD_INST_MEM) { o.blob = genInstImage(r); o.a[1] = 3; }
            else if(kind == W_SET_INS) { o.a[0] = (int64_t)r.below(2); o.a[1] = (int64_t)r.below(128); o.a[2] = (int64_t)r.below(1u << 30); }
            else { int src; o.blob = genBankImage(r, src); o.a[1] = src; o.a[0] = r.chance(0.6) ? 0 : 1; /* 0 data, 1 file */ }
            if(!o.blob.empty() && r.chance(0.5))
            {
                int nf = (int)r.range(1, 2);
                for(int f = 0; f < nf; ++f) switch(r.weighted({ 45, 40, 15 }))
                {
                case 0: { size_t sz = o.blob.size(); size_t at = r.chance(0.4) ? r.below(std::min<size_t>(sz, 40)) : (r.chance(0.3) ? sz - 1 - r.below(std::min<size_t>(sz, 70)) : r.below(sz)); o.faults.push_back(Fault(FS_TRUNCATE, (int64_t)at)); break; }
                case 1: o.faults.push_back(Fault(FS_BITFLIP, (int64_t)(r.chance(0.5) ? r.below(std::min<size_t>(o.blob.size(), 20)) : r.below(o.blob.size())), (int64_t)(1u << r.below(8)))); break;
                default: o.faults.push_back(Fault(FS_SPLICE, (int64_t)r.below(o.blob.size()), (int64_t)r.below(1u << 20))); break;
                }
            }
            if(kind == W_OPEN_BANK && o.a[0] == 1 && r.chance(0.5)) switch(r.below(5))
            {
            case 0: o.faults.push_back(Fault(FS_NOENT, 0)); break;
            case 1: o.faults.push_back(Fault(FS_SHORTREAD, (int64_t)r.below(o.blob.size() + 1))); break;
            case 2: o.faults.push_back(Fault(FS_READERR, (int64_t)r.below(o.blob.size() + 1))); break;
            case 3: o.faults.push_back(Fault(FS_SEEKFAIL, 0)); break;
            default: o.faults.push_back(Fault(FS_TELLFAIL, 0)); break;
            }
            p.ops.push_back(o);
            if(kind == W_OPEN_BANK || kind == W_SET_INS) { Op pl(W_PLAY); pl.a[0] = (int64_t)r.below(1u << 30); pl.a[1] = thorough ? 120 : 50; p.ops.push_back(pl); }
        }
    }

    // a seeded play history over the currently loaded bank
    static void playHistory(OPN2_MIDIPlayer *dev, uint64_t seed, int n, Run &run, long rate)
    {
        Rng r(mix64(seed, 0x91A7));
        for(int i = 0; i < n; ++i)
        {
            int ch = r.chance(0.25) ? 9 : (int)r.below(16);
            switch(r.weighted({ 34, 8, 14, 10, 8, 6, 4, 4, 8, 4 }))
            {
            case 0: { int key = r.chance(0.8) ? (int)r.below(128) : r.pick<int>({ 0, 127, 128, 255 }); int ret = opn2_rt_noteOn(dev, (OPN2_UInt8)ch, (OPN2_UInt8)key, (OPN2_UInt8)(r.chance(0.9) ? r.range(1, 127) : r.pick<int>({ 0, 128, 255 }))); run.log.add((uint64_t)ret); break; }
            case 1: opn2_rt_noteOff(dev, (OPN2_UInt8)ch, (OPN2_UInt8)r.below(256)); break;
            case 2: opn2_rt_pitchBend(dev, (OPN2_UInt8)ch, (OPN2_UInt16)r.pick<int>({ 0, 1, 8191, 8192, 8193, 16383, (int)r.below(16384), (int)r.below(16384) })); break;
            case 3: { int cc = r.pick<int>({ 1, 5, 7, 10, 11, 37, 64, 65, 66, 67, 74, 0, 32 }); opn2_rt_controllerChange(dev, (OPN2_UInt8)ch, (OPN2_UInt8)cc, (OPN2_UInt8)(r.chance(0.7) ? r.below(128) : r.below(256))); break; }
            case 4: opn2_rt_patchChange(dev, (OPN2_UInt8)ch, (OPN2_UInt8)(r.chance(0.8) ? r.below(128) : r.below(256))); break;
            case 5: { opn2_rt_controllerChange(dev, (OPN2_UInt8)ch, 101, 0); opn2_rt_controllerChange(dev, (OPN2_UInt8)ch, 100, 0); opn2_rt_controllerChange(dev, (OPN2_UInt8)ch, 6, (OPN2_UInt8)r.pick<int>({ 0, 1, 2, 12, 24, 64, 127 })); opn2_rt_controllerChange(dev, (OPN2_UInt8)ch, 38, (OPN2_UInt8)r.below(128)); break; }
            case 6: opn2_rt_channelAfterTouch(dev, (OPN2_UInt8)ch, (OPN2_UInt8)r.below(256)); break;
            case 7: opn2_rt_noteAfterTouch(dev, (OPN2_UInt8)ch, (OPN2_UInt8)r.below(256), (OPN2_UInt8)r.below(256)); break;
            case 8: { double s = r.pick<double>({ 0.0, 0.01, 0.05, 0.3 }); opn2_tickEvents(dev, s, 0.0); run.simSeconds += s; break; }
            default: { int fr = r.pick<int>({ 64, 256, 512 }); std::vector<short> buf((size_t)fr * 2); opn2_generate(dev, fr * 2, buf.data()); run.simSeconds += (double)fr / (double)rate; run.log.addBytes(buf.data(), buf.size() * 2); break; }
            }
        }
        opn2_panic(dev);
    }

    void execute(const Plan &p, Run &run)
    {
        SimFsScope fs; g_fs.reset();
        opn2_set_vgm_out_path("kek.vgm");
        const long rate = (long)p.get("rate", 22050);
        OPN2_MIDIPlayer *dev = opn2_init(rate);
        opn2_switchEmulator(dev, (int)p.get("emu", 2));
        opn2_setVolumeRangeModel(dev, (int)p.get("volmodel", 0));
        bool bankLoaded = false;
        for(size_t i = 0; i < p.ops.size() && !run.failed(); ++i)
        {
            const Op &o = p.ops[i];
            noteOp((int)i, o.kind);
            std::vector<uint8_t> img = o.blob;
            applyStorageFaults(img, o.faults, &g_fs.fired);
            switch(o.kind)
            {
            case W_LOAD_BANK_MEM:
            {
                ExactBuf eb(img.size()); if(!img.empty()) memcpy(eb.p, img.data(), img.size());
                int err = -12345;
                WOPNFile *f = WOPN_LoadBankFromMem(eb.p, img.size(), &err);
                if(f)
                {
                    run.count("bank_accepted");
                    if(f->version == 1) run.count("version1");
                    // touch everything the loader returned
                    Hasher h; for(unsigned b = 0; b < f->banks_count_melodic; ++b) h.addBytes(&f->banks_melodic[b], sizeof(WOPNBank)); for(unsigned b = 0; b < f->banks_count_percussion; ++b) h.addBytes(&f->banks_percussive[b], sizeof(WOPNBank));
                    run.log.add(h.h);
                    Hasher st; st.add(0u); st.add((uint64_t)o.a[1]); st.add(f->version); st.add(f->banks_count_melodic > 3 ? 3 : f->banks_count_melodic); st.add(f->banks_count_percussion > 3 ? 3 : f->banks_count_percussion); run.state(st.h);
                    WOPN_Free(f);
                }
                else
                {
                    run.count("bank_rejected");
                    if(err < WOPN_ERR_BAD_MAGIC || err > WOPN_ERR_NULL_POINTER) { run.fail("undefined-error-code", wName(o.kind), "WOPN_LoadBankFromMem returned NULL with error code " + std::to_string(err)); break; }
                    run.count(("err." + std::to_string(err)).c_str());
                    Hasher st; st.add(1u); st.add((uint64_t)o.a[1]); st.add((uint64_t)err); run.state(st.h);
                }
                break;
            }
            case W_LOAD_INST_MEM:
            {
                ExactBuf eb(img.size()); if(!img.empty()) memcpy(eb.p, img.data(), img.size());
                OPNIFile inst; memset(&inst, 0, sizeof inst);
                int err = WOPN_LoadInstFromMem(&inst, eb.p, img.size());
                if(err < WOPN_ERR_OK || err > WOPN_ERR_NULL_POINTER) { run.fail("undefined-error-code", wName(o.kind), "WOPN_LoadInstFromMem returned " + std::to_string(err)); break; }
                run.count(err == 0 ? "inst_accepted" : "inst_rejected"); if(err) run.count(("err." + std::to_string(err)).c_str());
                Hasher st; st.add(2u); st.add((uint64_t)err); st.add(inst.version); run.state(st.h);
                if(err == 0)
                {
                    // an accepted instrument is usable: put it into a bank through the API and play it
                    OPN2_BankId id = { 0, 0, 0 }; OPN2_Bank bk;
                    if(opn2_getBank(dev, &id, OPNMIDI_Bank_Create, &bk) == 0)
                    {
                        OPN2_Instrument ins; memset(&ins, 0, sizeof ins);
                        ins.note_offset = inst.inst.note_offset; ins.percussion_key_number = inst.inst.percussion_key_number; ins.inst_flags = 0; ins.fbalg = inst.inst.fbalg; ins.lfosens = inst.inst.lfosens;
                        for(int l = 0; l < 4; ++l) memcpy(&ins.operators[l], &inst.inst.operators[l], 7);
                        ins.delay_on_ms = 100; ins.delay_off_ms = 100;
                        for(unsigned k = 0; k < 128; k += 17) opn2_setInstrument(dev, &bk, k, &ins);
                        bankLoaded = true;
                        playHistory(dev, (uint64_t)inst.inst.note_offset + i, 30, run, rate);
                    }
                }
                break;
            }
            case W_OPEN_BANK:
            {
                int rc;
                if(o.a[0] == 0) { ExactBuf eb(img.size()); if(!img.empty()) memcpy(eb.p, img.data(), img.size()); rc = opn2_openBankData(dev, eb.p, (long)img.size()); }
                else
                {
                    g_fs.files["bank.wopn"] = img;
                    for(size_t f = 0; f < o.faults.size(); ++f) if(o.faults[f].kind < FS_TRUNCATE) g_fs.nextOpenFaults.push_back(o.faults[f]);
                    rc = opn2_openBankFile(dev, "bank.wopn"); g_fs.nextOpenFaults.clear();
                }
                if(rc != 0 && rc != -1) { run.fail("load-return-value", wName(o.kind), "bank load returned " + std::to_string(rc)); break; }
                const char *err = opn2_errorInfo(dev);
                if(rc == -1 && (!err || !*err)) { run.fail("rejected-without-error-text", wName(o.kind), "bank load returned -1 with empty opn2_errorInfo"); break; }
                run.count(rc == 0 ? "bank_accepted" : "bank_rejected");
                if(rc == 0) bankLoaded = true;
                if(rc == 0 && img.size() >= 17 && ((img[13] | img[14]) == 0 || (img[15] | img[16]) == 0)) run.count("zero_bank_count");
                Hasher st; st.add(3u); st.add((uint64_t)o.a[0]); st.add((uint64_t)o.a[1]); st.add((uint64_t)rc); st.add(hashStr(err ? err : "")); for(size_t f = 0; f < o.faults.size(); ++f) st.add((uint64_t)o.faults[f].kind); run.state(st.h);
                break;
            }
            case W_SET_INS:
            {
                OPN2_BankId id; id.percussive = (OPN2_UInt8)o.a[0]; id.msb = 0; id.lsb = 0; OPN2_Bank bk;
                if(opn2_getBank(dev, &id, OPNMIDI_Bank_Create, &bk) != 0) break;
                Rng r(mix64((uint64_t)o.a[2], 3));
                for(int k = 0; k < 12; ++k)
                {
                    OPN2_Instrument ins = insFromSeed(r.next(), true); ins.inst_flags &= ~OPNMIDI_Ins_IsBlank;
                    opn2_setInstrument(dev, &bk, (unsigned)((o.a[1] + k * 11) & 127), &ins);
                    if(ins.note_offset > 12000 || ins.note_offset < -12000) run.count("extreme_note_offset_played");
                }
                bankLoaded = true; run.count("setInstrument_played");
                break;
            }
            case W_PLAY:
                if(bankLoaded) { size_t before = g_tap.total; playHistory(dev, (uint64_t)o.a[0], (int)o.a[1], run, rate); (void)before; }
                break;
            }
        }
        for(std::map<std::string, uint64_t>::iterator it = g_fs.fired.begin(); it != g_fs.fired.end(); ++it) run.counters["fault." + it->first] += it->second;
        opn2_close(dev);
    }

    void shrinkOp(const Op &o, std::vector<Op> &out)
    {
        if(o.blob.size() > 32) { size_t n = o.blob.size(); for(size_t cut = n / 2; cut >= 1 && out.size() < 12; cut /= 2) { Op x = o; x.blob.resize(n - cut); out.push_back(x); } }
        if(o.kind == W_PLAY && o.a[1] > 4) { Op x = o; x.a[1] = o.a[1] / 2; out.push_back(x); }
    }
};

int main(int argc, char **argv)
{
    C02 c;
    return driverMain(c, argc, argv);
}
