// C15 — WOPN/OPNI serialisation round-trips and never writes past its buffer.
// The serialiser is the storage layer of the simulated world: values are saved into a destination whose
// capacity is drawn from {0,1,10,11,12,needed-1,needed,needed+7} and uniformly from 0..needed (disk-full =
// destination smaller than the calculator says), the stored image may then be torn at an arbitrary byte
// (crash of the writer), and is loaded back by the library loader and, as a cross-check, by a player through
// opn2_openBankData + the bank API. Values: 1..64 banks per kind (biased small), NUL-terminated zero-padded
// names, all operator/offset/delay byte values, blank flags, chip type, LFO byte; plus accepted raw byte
// strings (unterminated names, junk after NUL, zero bank counts).
#include "../sim/apiops.hpp"
extern "C" {
#include "wopn/wopn_file.h"
}

using namespace sim;

enum { V_BANK = 0, V_INST, V_RAW, V_COUNT };
static const char *vName(int k) { static const char *n[] = { "bankRoundTrip", "instRoundTrip", "rawAcceptedRoundTrip" }; return k >= 0 && k < V_COUNT ? n[k] : "?"; }

static size_t layoutBank(unsigned version, unsigned m, unsigned p)
{
    size_t ins = version >= 2 ? 69 : 65;
    return 11 + (version >= 2 ? 2 : 0) + 2 + 2 + 1 + (version >= 2 ? 34 * (size_t)(m + p) : 0) + ins * 128 * (size_t)(m + p);
}
// a capacity that ends exactly at (or one byte around) a field boundary of some record of the image: the header, one of the
// 34-byte bank records (name[32], lsb, msb) or one of the 65/69-byte instrument records
static size_t boundaryCapacity(unsigned version, unsigned m, unsigned p, double d)
{
    const size_t head = 11 + (version >= 2 ? 2 : 0) + 2 + 2 + 1, nMeta = version >= 2 ? (size_t)(m + p) : 0, ins = version >= 2 ? 69 : 65, nIns = 128 * (size_t)(m + p);
    uint64_t h = (uint64_t)(d * 4e9); h ^= h >> 13; h *= 0x9E3779B97F4A7C15ull; h ^= h >> 29;
    static const int metaOff[] = { 0, 1, 31, 32, 33 };
    static const int insOff[] = { 0, 1, 31, 32, 33, 34, 35, 36, 37, 43, 44, 51, 58, 64, 65, 66, 67, 68 };
    static const int headOff[] = { 0, 9, 10, 11, 12, 13, 14, 15, 16, 17 };
    size_t cap;
    switch(nMeta + nIns ? h % 10 : 0)
    {
    case 0: cap = (size_t)headOff[(h >> 8) % 10]; if(cap > head) cap = head; break;
    case 1: case 2: case 3: case 4: if(nMeta) { cap = head + 34 * (size_t)((h >> 8) % nMeta) + (size_t)metaOff[(h >> 40) % 5]; break; } /* fallthrough */
    default: { size_t rec = (h >> 8) % nIns; if(((h >> 4) & 3) == 0) rec = rec % 3; if(((h >> 4) & 3) == 1) rec = nIns - 1 - rec % 3; int o = insOff[(h >> 40) % 18]; if((size_t)o > ins) o = (int)ins; cap = head + 34 * nMeta + ins * rec + (size_t)o; break; }
    }
    return cap;
}
static size_t layoutInst(unsigned version) { return 11 + (version >= 2 ? 2 : 0) + 1 + (version >= 2 ? 65 : 65); }

class C15 : public Check
{
public:
    const char *id() { return "C15"; }
    const char *opName(int k) { return vName(k); }
    int quickRuns() { return 120000; }
    int quickSeconds() { return 90; }
    int thoroughSeconds() { return 900; }
    const char *rule()
    {
        return "each run = a few generated bank/instrument values (or accepted raw byte strings) x version {1,2,0=latest} x destination capacity class x optional torn-write offset; save -> (tear) -> load -> compare on the fields the version carries, size calculator vs independent layout arithmetic, guard bytes, cross-load through a player; "
               "distinct = distinct (kind, version, bank-count bucket, capacity class, tear class, outcome) tuples";
    }
    std::vector<std::string> realComponents() { return { "wopn_file.c: size calculators, WOPN_SaveBankToMem/SaveInstToMem, WOPN_LoadBankFromMem/LoadInstFromMem, WOPN_BanksCmp; OPNMIDIplay::LoadBank + bank API for the cross-check" }; }
    std::vector<std::string> stubComponents() { return { "destination 'disk' = exact-size heap block (ASan red zone right after the capacity)" }; }
    std::vector<std::string> requiredProbes() { return { "cap.too_small_refused", "cap.exact", "cap.larger_guard_intact", "torn_write_rejected", "v1_drops", "raw_accepted_idempotent", "cross_load_player", "many_banks" }; }

    void generate(Rng &r, Plan &p, bool)
    {
        int n = (int)r.range(1, 3);
        for(int i = 0; i < n; ++i)
        {
            Op o; o.kind = (int)r.weighted({ 55, 25, 20 });
            o.a[0] = (int64_t)r.below(1u << 30);            // value seed
            o.a[1] = r.pick<int>({ 2, 2, 1, 0 });            // version
            o.a[2] = (int64_t)r.below(12);                   // capacity class
            o.d = r.unit();                                  // uniform capacity / tear position
            o.a[3] = r.chance(0.4);                          // tear?
            p.ops.push_back(o);
        }
    }

    static void genName(Rng &r, char *dst, size_t field, size_t maxLen)
    {
        memset(dst, 0, field);
        size_t n = r.chance(0.2) ? maxLen : (size_t)r.below(maxLen + 1);
        for(size_t i = 0; i < n; ++i) dst[i] = (char)r.range(1, 255);
    }
    static void genInstrument(Rng &r, WOPNInstrument &in, unsigned version)
    {
        memset(&in, 0, sizeof in);
        genName(r, in.inst_name, 32, 31);
        in.note_offset = (int16_t)r.pick<int>({ -32768, -1, 0, 1, 12, 32767, (int)r.range(-32768, 32767) });
        in.percussion_key_number = (uint8_t)r.below(256);
        in.fbalg = (uint8_t)r.below(256); in.lfosens = (uint8_t)r.below(256);
        for(int l = 0; l < 4; ++l) { uint8_t *q = (uint8_t *)&in.operators[l]; for(int k = 0; k < 7; ++k) q[k] = (uint8_t)r.below(256); }
        if(version >= 2)
        {
            bool blank = r.chance(0.25);
            if(blank) { in.inst_flags = WOPN_Ins_IsBlank; in.delay_on_ms = in.delay_off_ms = 0; }
            else { in.delay_on_ms = (uint16_t)r.pick<int>({ 1, 40000, 65535, (int)r.below(65536) }); in.delay_off_ms = (uint16_t)r.pick<int>({ 0, 1, 65535, (int)r.below(65536) }); if(!in.delay_on_ms && !in.delay_off_ms) in.delay_on_ms = 1; }
        }
    }
    static bool insEq(const WOPNInstrument &a, const WOPNInstrument &b, unsigned version, std::string &why)
    {
        if(memcmp(a.inst_name, b.inst_name, 32)) { why = "inst_name"; return false; }
        if(a.note_offset != b.note_offset) { why = "note_offset"; return false; }
        if(a.percussion_key_number != b.percussion_key_number) { why = "percussion_key_number"; return false; }
        if(a.fbalg != b.fbalg || a.lfosens != b.lfosens) { why = "fbalg/lfosens"; return false; }
        if(memcmp(a.operators, b.operators, sizeof a.operators)) { why = "operators"; return false; }
        if(version >= 2)
        {
            if((a.inst_flags & WOPN_Ins_IsBlank) != (b.inst_flags & WOPN_Ins_IsBlank)) { why = "blank flag"; return false; }
            if(a.delay_on_ms != b.delay_on_ms || a.delay_off_ms != b.delay_off_ms) { why = "delays"; return false; }
        }
        return true;
    }

    size_t pickCapacity(const Op &o, size_t needed, int &cls, unsigned version = 0, unsigned m = 0, unsigned pc = 0)
    {
        cls = (int)o.a[2];
        switch(cls)
        {
        case 0: return 0; case 1: return 1; case 2: return 10; case 3: return 11; case 4: return 12;
        case 5: return needed ? needed - 1 : 0; case 6: return needed; case 7: return needed + 7;
        case 8: return (size_t)(o.d * (double)needed);
        case 9: case 10: if(version) { size_t c = boundaryCapacity(version, m, pc, o.d); return c < needed ? c : needed; } return needed;
        default: return needed;
        }
    }

    void execute(const Plan &p, Run &run)
    {
        SimFsScope fs; g_fs.reset();
        for(size_t i = 0; i < p.ops.size() && !run.failed(); ++i)
        {
            const Op &o = p.ops[i];
            noteOp((int)i, o.kind);
            Rng r(mix64((uint64_t)o.a[0], 0xC15));
            unsigned reqVersion = (unsigned)o.a[1]; unsigned version = reqVersion == 0 ? 2 : reqVersion;
            if(o.kind == V_BANK || o.kind == V_RAW)
            {
                WOPNFile *v = NULL;
                if(o.kind == V_BANK)
                {
                    unsigned m = r.chance(0.85) ? (unsigned)r.range(1, 3) : (unsigned)r.range(4, 64), pc = r.chance(0.85) ? (unsigned)r.range(1, 3) : (unsigned)r.range(4, 64);
                    if(m + pc > 20) run.count("many_banks");
                    v = WOPN_Init((uint16_t)m, (uint16_t)pc);
                    v->version = (uint16_t)version; v->lfo_freq = (uint8_t)r.below(16); v->chip_type = version >= 2 ? (uint8_t)r.below(2) : 0; v->volume_model = 0;
                    for(int s = 0; s < 2; ++s)
                    {
                        WOPNBank *bs = s ? v->banks_percussive : v->banks_melodic; unsigned n = s ? pc : m;
                        for(unsigned b = 0; b < n; ++b)
                        {
                            if(version >= 2) { genName(r, bs[b].bank_name, 33, 32); bs[b].bank_midi_lsb = (uint8_t)r.below(256); bs[b].bank_midi_msb = (uint8_t)r.below(256); }
                            for(int k = 0; k < 128; ++k) genInstrument(r, bs[b].ins[k], version);
                        }
                    }
                }
                else
                {
                    // an accepted raw byte string: unterminated names, junk after NUL, zero counts
                    unsigned rv = r.chance(0.7) ? 2 : 1; unsigned m = (unsigned)r.below(3), pc = (unsigned)r.below(3);
                    std::vector<uint8_t> b; const char *mg = rv == 2 ? "WOPN2-B2NK" : "WOPN2-BANK"; b.insert(b.end(), mg, mg + 10); b.push_back(0);
                    if(rv == 2) putLE16(b, 2);
                    putBE16(b, m); putBE16(b, pc); b.push_back((uint8_t)r.below(256));
                    size_t body = layoutBank(rv, m, pc) - b.size(); for(size_t k = 0; k < body; ++k) b.push_back((uint8_t)(r.chance(0.1) ? 0 : r.below(256)));
                    ExactBuf eb(b.size()); memcpy(eb.p, b.data(), b.size());
                    int err = 0; v = WOPN_LoadBankFromMem(eb.p, b.size(), &err);
                    if(!v) { run.fail("wellformed-bank-rejected", vName(o.kind), "a byte string of exactly the format's length was rejected with error " + std::to_string(err)); break; }
                    version = v->version; reqVersion = version;
                }
                size_t needed = WOPN_CalculateBankFileSize(v, (uint16_t)reqVersion);
                size_t mine = layoutBank(version, v->banks_count_melodic, v->banks_count_percussion);
                // the calculator may over-estimate (it does, by the 2 version bytes, for version 1): the property only needs
                // "a buffer of the reported size is enough"; an under-estimate shows up as save-failed-with-enough-room below
                if(needed != mine) run.count("calculator_overestimates");
                if(needed < mine) { run.fail("size-calculator-too-small", vName(o.kind), "WOPN_CalculateBankFileSize = " + std::to_string(needed) + " but the format's layout needs " + std::to_string(mine)); WOPN_Free(v); break; }
                int capCls; size_t cap = pickCapacity(o, needed, capCls, version, v->banks_count_melodic, v->banks_count_percussion);
                ExactBuf dst(cap);
                int rc = WOPN_SaveBankToMem(v, dst.p, cap, (uint16_t)reqVersion, 0);
                run.log.add((uint64_t)(int64_t)rc); run.log.add(cap); run.log.add(needed); if(rc == 0) { Hasher ih; ih.addBytes(dst.p, cap < needed ? cap : needed); run.log.add(ih.h); }
                Hasher st; st.add((uint64_t)o.kind); st.add(version); st.add((uint64_t)(v->banks_count_melodic + v->banks_count_percussion > 6 ? 2 : (v->banks_count_melodic + v->banks_count_percussion > 2))); st.add((uint64_t)capCls); st.add((uint64_t)(rc != 0)); st.add((uint64_t)o.a[3]);
                run.state(st.h);
                if(cap < mine)
                {
                    // (ASan's red zone right after `cap` bytes would show an overrun; here: it must also say so)
                    if(rc == 0) { run.fail("too-small-destination-accepted", vName(o.kind), "capacity " + std::to_string(cap) + " < the image's true length " + std::to_string(mine) + " but save reported success"); WOPN_Free(v); break; }
                    run.count("cap.too_small_refused");
                    WOPN_Free(v); continue;
                }
                if(cap < needed && rc != 0) { run.count("cap.between_true_and_reported_refused"); WOPN_Free(v); continue; } // either answer is fine here
                if(rc != 0) { run.fail("save-failed-with-enough-room", vName(o.kind), "capacity " + std::to_string(cap) + " >= needed " + std::to_string(needed) + " but save returned " + std::to_string(rc)); WOPN_Free(v); break; }
                bool guardOk = true; for(size_t k = needed; k < cap; ++k) if(dst.p[k] != 0xA5) guardOk = false;
                if(!guardOk) { run.fail("wrote-past-reported-size", vName(o.kind), "bytes beyond the calculated size " + std::to_string(needed) + " were modified"); WOPN_Free(v); break; }
                run.count(cap == needed ? "cap.exact" : "cap.larger_guard_intact");
                // torn write: the stored image is cut at an arbitrary byte below its true length
                if(o.a[3])
                {
                    size_t cut = (size_t)(o.d * (double)mine); if(cut >= mine) cut = mine - 1;
                    ExactBuf torn(cut); if(cut) memcpy(torn.p, dst.p, cut);
                    int err = 0; WOPNFile *t = WOPN_LoadBankFromMem(torn.p, cut, &err);
                    if(t) { run.fail("torn-image-accepted", vName(o.kind), "image of true length " + std::to_string(mine) + " cut to " + std::to_string(cut) + " bytes was accepted"); WOPN_Free(t); WOPN_Free(v); break; }
                    run.count("torn_write_rejected");
                }
                // load back
                if(cap < needed) needed = cap; // (between the true and the reported size: what was written is all there is)
                ExactBuf img(needed); memcpy(img.p, dst.p, needed);
                int err = 0; WOPNFile *l = WOPN_LoadBankFromMem(img.p, needed, &err);
                if(!l) { run.fail("saved-image-rejected", vName(o.kind), "load(save(v)) failed with error " + std::to_string(err)); WOPN_Free(v); break; }
                std::string why;
                if(l->version != version) why = "version";
                else if(l->banks_count_melodic != v->banks_count_melodic || l->banks_count_percussion != v->banks_count_percussion) why = "bank counts";
                else if(l->lfo_freq != (v->lfo_freq & 0x0F)) why = "lfo_freq";
                else if(version >= 2 && l->chip_type != (v->chip_type & 1)) why = "chip_type";
                for(int s = 0; s < 2 && why.empty(); ++s)
                {
                    WOPNBank *a = s ? v->banks_percussive : v->banks_melodic, *b = s ? l->banks_percussive : l->banks_melodic; unsigned n = s ? v->banks_count_percussion : v->banks_count_melodic;
                    for(unsigned k = 0; k < n && why.empty(); ++k)
                    {
                        if(version >= 2 && o.kind == V_BANK) { if(memcmp(a[k].bank_name, b[k].bank_name, 33)) why = "bank_name"; else if(a[k].bank_midi_lsb != b[k].bank_midi_lsb || a[k].bank_midi_msb != b[k].bank_midi_msb) why = "bank msb/lsb"; }
                        for(int q = 0; q < 128 && why.empty(); ++q) { std::string w; if(!insEq(a[k].ins[q], b[k].ins[q], version, w)) why = (s ? "percussion bank " : "melodic bank ") + std::to_string(k) + " instrument " + std::to_string(q) + ": " + w; }
                    }
                }
                if(!why.empty()) { run.fail(o.kind == V_RAW ? "save-load-not-idempotent" : "round-trip-mismatch", "v" + std::to_string(version), "load(save(v)) differs in " + why); WOPN_Free(l); WOPN_Free(v); break; }
                if(o.kind == V_RAW)
                {
                    // for accepted byte strings the full structures must be equal (including what the loader normalised)
                    if(version >= 2 && !WOPN_BanksCmp(l, v)) { run.fail("save-load-not-idempotent", "v" + std::to_string(version), "load(save(load(b))) != load(b) by WOPN_BanksCmp"); WOPN_Free(l); WOPN_Free(v); break; }
                    run.count("raw_accepted_idempotent");
                }
                if(version == 1 && o.kind == V_BANK) run.count("v1_drops");
                // cross-check through a player: what was saved is what is later loaded and read through the bank API
                if(version >= 2 && o.kind == V_BANK && v->banks_count_melodic + v->banks_count_percussion <= 6)
                {
                    OPN2_MIDIPlayer *dev = opn2_init(44100);
                    if(opn2_openBankData(dev, img.p, (long)needed) != 0) { run.fail("saved-image-rejected-by-player", vName(o.kind), opn2_errorInfo(dev)); opn2_close(dev); WOPN_Free(l); WOPN_Free(v); break; }
                    // the last bank with a given (kind, msb, lsb) wins in the player's map
                    for(int s = 0; s < 2 && !run.failed(); ++s)
                    {
                        WOPNBank *a = s ? v->banks_percussive : v->banks_melodic; unsigned n = s ? v->banks_count_percussion : v->banks_count_melodic;
                        for(unsigned k = 0; k < n && !run.failed(); ++k)
                        {
                            if(a[k].bank_midi_lsb > 127 || a[k].bank_midi_msb > 127) continue; // not addressable through OPN2_BankId
                            bool shadowed = false; for(unsigned k2 = k + 1; k2 < n; ++k2) if(a[k2].bank_midi_lsb == a[k].bank_midi_lsb && a[k2].bank_midi_msb == a[k].bank_midi_msb) shadowed = true;
                            if(shadowed) continue;
                            OPN2_BankId id; id.percussive = (OPN2_UInt8)s; id.msb = a[k].bank_midi_msb; id.lsb = a[k].bank_midi_lsb; OPN2_Bank bk;
                            if(opn2_getBank(dev, &id, 0, &bk) != 0) { run.fail("saved-bank-missing-in-player", vName(o.kind), "bank " + std::to_string(id.msb) + ":" + std::to_string(id.lsb) + " not found after loading the saved image"); break; }
                            for(unsigned q = 0; q < 128; q += 13)
                            {
                                OPN2_Instrument gi; opn2_getInstrument(dev, &bk, q, &gi); const WOPNInstrument &w = a[k].ins[q];
                                bool eq = gi.note_offset == w.note_offset && gi.percussion_key_number == w.percussion_key_number && gi.fbalg == w.fbalg && gi.lfosens == w.lfosens && !memcmp(gi.operators, w.operators, sizeof w.operators) &&
                                          ((gi.inst_flags & OPNMIDI_Ins_IsBlank) != 0) == ((w.inst_flags & WOPN_Ins_IsBlank) != 0) && gi.delay_on_ms == w.delay_on_ms && gi.delay_off_ms == w.delay_off_ms;
                                if(!eq) { run.fail("player-sees-different-instrument", vName(o.kind), "instrument " + std::to_string(q) + " of bank " + std::to_string(id.msb) + ":" + std::to_string(id.lsb) + " read through the bank API differs from the saved value"); break; }
                            }
                        }
                    }
                    opn2_close(dev);
                    run.count("cross_load_player");
                }
                WOPN_Free(l); WOPN_Free(v);
            }
            else
            {
                OPNIFile v; memset(&v, 0, sizeof v);
                v.version = (uint16_t)version; v.is_drum = (uint8_t)r.below(2);
                genInstrument(r, v.inst, 1); // OPNI carries no delays/blank flag
                size_t needed = WOPN_CalculateInstFileSize(&v, (uint16_t)reqVersion), mine = layoutInst(version);
                if(needed < mine) { run.fail("size-calculator-too-small", vName(o.kind), "WOPN_CalculateInstFileSize = " + std::to_string(needed) + " but the layout needs " + std::to_string(mine)); break; }
                int capCls; size_t cap = pickCapacity(o, needed, capCls);
                ExactBuf dst(cap);
                int rc = WOPN_SaveInstToMem(&v, dst.p, cap, (uint16_t)reqVersion);
                run.log.add((uint64_t)(int64_t)rc); run.log.add(cap); run.log.add(needed); if(rc == 0) { Hasher ih; ih.addBytes(dst.p, cap < needed ? cap : needed); run.log.add(ih.h); }
                Hasher st; st.add(9u); st.add(version); st.add((uint64_t)capCls); st.add((uint64_t)(rc != 0)); run.state(st.h);
                if(cap < mine) { if(rc == 0) { run.fail("too-small-destination-accepted", vName(o.kind), "capacity " + std::to_string(cap) + " < true length " + std::to_string(mine)); break; } run.count("cap.too_small_refused"); continue; }
                if(cap < needed) { if(rc != 0) continue; needed = cap; }
                if(rc != 0) { run.fail("save-failed-with-enough-room", vName(o.kind), "returned " + std::to_string(rc)); break; }
                for(size_t k = needed; k < cap; ++k) if(dst.p[k] != 0xA5) { run.fail("wrote-past-reported-size", vName(o.kind), "byte " + std::to_string(k)); break; }
                if(run.failed()) break;
                if(o.a[3]) { size_t cut = (size_t)(o.d * (double)mine); if(cut >= mine) cut = mine - 1; ExactBuf torn(cut); if(cut) memcpy(torn.p, dst.p, cut); OPNIFile t; if(WOPN_LoadInstFromMem(&t, torn.p, cut) == 0) { run.fail("torn-image-accepted", vName(o.kind), "instrument image cut to " + std::to_string(cut) + " of " + std::to_string(needed) + " bytes was accepted"); break; } run.count("torn_write_rejected"); }
                ExactBuf img(needed); memcpy(img.p, dst.p, needed);
                OPNIFile l; memset(&l, 0, sizeof l);
                int err = WOPN_LoadInstFromMem(&l, img.p, needed);
                if(err) { run.fail("saved-image-rejected", vName(o.kind), "error " + std::to_string(err)); break; }
                std::string why; if(l.version != version) why = "version"; else if(l.is_drum != v.is_drum) why = "is_drum"; else insEq(v.inst, l.inst, 1, why);
                if(!why.empty()) { run.fail("round-trip-mismatch", "opni.v" + std::to_string(version), "load(save(v)) differs in " + why); break; }
            }
        }
    }
};

int main(int argc, char **argv)
{
    C15 c;
    return driverMain(c, argc, argv);
}
