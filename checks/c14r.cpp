// variant: tsan
// phase: 1
// chain: C14V
// C14 (phase 2 of 3: data races) — "... or concurrently on other threads, changes nothing and causes no data race".
// The same multi-task plans as phase 1 (VGM dumper excluded: it writes through the harness's in-memory file
// system), executed on real threads in the ThreadSanitizer build. Exactly one thread runs at a time (baton),
// so every run is serial and replayable, but the baton is invisible to TSan: calls of different tasks are
// unordered in its happens-before graph and any pair of conflicting accesses to the same location by two
// tasks is reported for that schedule. A report counts when both stacks are inside the library.
#include "../sim/multitask.hpp"
#include <sys/stat.h>
#include <sys/wait.h>

extern "C" void opn2_set_vgm_out_path(const char *path);
using namespace sim;

class C14R : public Check
{
public:
    const char *id() { return "C14"; }
    const char *opName(int k) { return mtOpName(k); }
    int quickRuns() { return 800; }
    int recheckEvery() { return 5; }
    bool verdictMayFlicker() { return true; }
    int quickSeconds() { return 90; }
    int thoroughSeconds() { return 900; }
    int cpuBudgetSec() { return 120; }
    const char *rule()
    {
        return "each run = 2-8 task histories (8 audio cores) on real threads under the TSan-invisible baton; ThreadSanitizer reports whose two stacks are both inside the library are violations, classed by the racing location (global name or function pair); "
               "distinct = distinct (core of task 0, core of task 1, number of tasks) tuples and schedule prefixes";
    }
    const char *technique() { return "deterministic simulation: real threads serialised by a TSan-invisible baton (seeded interleaving), ThreadSanitizer happens-before analysis as the oracle"; }
    std::vector<std::string> realComponents() { return { "the whole library on 2-8 real threads" }; }
    std::vector<std::string> stubComponents() { return { "none (VGM dumper core excluded in this phase)" }; }
    std::vector<std::string> requiredProbes() { return { "threaded_run", "null_device_call" }; }

    void generate(Rng &r, Plan &p, bool thorough) { mtGenerate(r, p, thorough, true); }

    // TSan writes its reports to stderr, which the worker has redirected into a file that is truncated before every run
    static std::string ownStderr()
    {
        std::string s; char buf[65536]; struct stat sb; if(fstat(2, &sb) != 0 || !S_ISREG(sb.st_mode)) return s;   // only the worker's per-run stderr file (a pipe or tty would block)
        int fd = open("/proc/self/fd/2", O_RDONLY); if(fd < 0) return s;
        ssize_t n; while((n = read(fd, buf, sizeof buf)) > 0) s.append(buf, (size_t)n); close(fd); return s;
    }

    // The plan runs in a forked child: ThreadSanitizer de-duplicates reports per process (equal stacks / equal addresses are
    // reported once), so only a process that has executed nothing before gives a report set that is a function of the plan.
    // (Turning de-duplication off instead makes every racing table element a report: hundreds of MB per run.)
    struct ChildResult { uint64_t nMarks; double simSeconds; uint64_t nullCalls; };

    void execute(const Plan &p, Run &run)
    {
        const int nTasks = (int)p.get("tasks", 2);
        int pfd[2]; if(pipe(pfd) != 0) { run.fail("harness", "pipe", "pipe() failed"); return; }
        fflush(stdout);
        pid_t pid = fork();
        if(pid < 0) { run.fail("harness", "fork", "fork() failed"); return; }
        if(pid == 0)
        {
            close(pfd[0]);
            armWatchdog(cpuBudgetSec());
            SimFsScope fs; g_fs.reset();
            std::vector<TaskCtx> tasks((size_t)nTasks);
            for(int t = 0; t < nTasks; ++t) { tasks[(size_t)t].id = t; mtSetupWorld(tasks[(size_t)t], p); }
            tapInstall(true);
            runThreaded(p, tasks);
            tapInstall(false);
            ChildResult cr; cr.nMarks = tasks[0].marks.size(); cr.simSeconds = 0; cr.nullCalls = 0;
            for(int t = 0; t < nTasks; ++t) { cr.simSeconds += tasks[(size_t)t].run.simSeconds; cr.nullCalls += tasks[(size_t)t].run.counters["null_device_call"]; }
            for(int t = 0; t < nTasks; ++t) tasks[(size_t)t].world.closeAll();
            std::vector<uint8_t> out((const uint8_t *)&cr, (const uint8_t *)&cr + sizeof cr);
            if(cr.nMarks) out.insert(out.end(), (const uint8_t *)tasks[0].marks.data(), (const uint8_t *)(tasks[0].marks.data() + cr.nMarks));
            size_t off = 0; while(off < out.size()) { ssize_t w = write(pfd[1], out.data() + off, out.size() - off); if(w <= 0) break; off += (size_t)w; }
            close(pfd[1]);
            _exit(0);
        }
        close(pfd[1]);
        std::vector<uint8_t> in; { uint8_t buf[65536]; ssize_t n; while((n = read(pfd[0], buf, sizeof buf)) > 0) in.insert(in.end(), buf, buf + n); } close(pfd[0]);
        int st = 0; while(waitpid(pid, &st, 0) < 0 && errno == EINTR) {}
        if(!(WIFEXITED(st) && WEXITSTATUS(st) == 0))
        {
            // die the way the child died (its stderr is ours): the engine classifies the death from the stderr text
            if(WIFSIGNALED(st)) { signal(WTERMSIG(st), SIG_DFL); kill(getpid(), WTERMSIG(st)); }
            _exit(WIFEXITED(st) ? WEXITSTATUS(st) : 70);
        }
        if(in.size() < sizeof(ChildResult)) { run.fail("harness", "short-result", "child result truncated"); return; }
        ChildResult cr; memcpy(&cr, in.data(), sizeof cr);
        run.count("threaded_run"); if(cr.nullCalls) run.count("null_device_call", cr.nullCalls);
        Hasher st2; st2.add((uint64_t)p.get("emu0", 0)); st2.add((uint64_t)p.get("emu1", 0)); st2.add((uint64_t)nTasks); run.state(st2.h);
        Hasher pre; for(size_t i = 0; i < p.ops.size() && i < 32; ++i) pre.add((uint64_t)p.ops[i].task); run.state(pre.h);
        for(uint64_t k = 0; k < cr.nMarks && sizeof(ChildResult) + (k + 1) * 8 <= in.size(); ++k) { uint64_t m; memcpy(&m, in.data() + sizeof(ChildResult) + k * 8, 8); run.log.add(m); }
        run.simSeconds += cr.simSeconds;
        // ---- oracle: ThreadSanitizer reports of this run
        std::string err = ownStderr(); size_t pos = 0; std::map<std::string, std::string> found;
        while((pos = err.find("WARNING: ThreadSanitizer: data race", pos)) != std::string::npos)
        {
            size_t end = err.find("==================", pos); std::string rep = err.substr(pos, end == std::string::npos ? std::string::npos : end - pos); pos += 10;
            // split into the two access stacks; both must contain a library frame
            size_t s1 = rep.find(" by thread T"), s2 = rep.find("Previous ");
            if(s1 == std::string::npos || s2 == std::string::npos) continue;
            std::string a = rep.substr(0, s2), b = rep.substr(s2);
            size_t bend = b.find("\n\n"); if(bend != std::string::npos) b = b.substr(0, bend);
            // A stack belongs to the library when it has a library frame, or when an API call (made in execTaskOp) went straight
            // into uninstrumented libstdc++ code (TSan's shadow stack records caller pcs only, so a library function whose
            // only callee is e.g. std::string::assign leaves no frame of its own: the global error string is such a case)
            auto viaApi = [](const std::string &stk) { if(stk.find("execTaskOp") == std::string::npos) return false; size_t f1 = stk.find("#1 "); if(f1 == std::string::npos) return false; size_t e = stk.find('\n', f1); std::string l1 = stk.substr(f1, e == std::string::npos ? std::string::npos : e - f1); return l1.find("/verif/") == std::string::npos && l1.find("libstdc++") != std::string::npos; };
            bool la = a.find("/repo/") != std::string::npos, lb = b.find("/repo/") != std::string::npos;
            bool va = !la && viaApi(a), vb = !lb && viaApi(b);
            if(!(la || va) || !(lb || vb)) continue;
            auto topLib = [](const std::string &stk) { std::istringstream is(stk); std::string ln; while(std::getline(is, ln)) { size_t q = ln.find("/repo/"); size_t h = ln.find("#"); if(q != std::string::npos && h != std::string::npos) { std::string f = ln.substr(h); size_t sp = f.find(' '); f = f.substr(sp + 1); size_t e2 = f.find(" /"); if(e2 != std::string::npos) f = f.substr(0, e2); size_t par = f.find('('); if(par != std::string::npos) f = f.substr(0, par); return f; } } return std::string("?"); };
            std::string fa = topLib(a), fb = topLib(b); if(fb < fa) std::swap(fa, fb);
            if(va) fa = "libstdc++ under an API call"; if(vb) fb = "libstdc++ under an API call"; if(fb < fa) std::swap(fa, fb);
            size_t hb = rep.find("Location is heap block of size "); if(hb != std::string::npos && (va || vb)) { size_t e4 = rep.find(' ', hb + 31); fa = "heap block of size " + rep.substr(hb + 31, e4 - hb - 31) + " shared through " + fa; }
            std::string loc; size_t g = rep.find("Location is global '"); if(g != std::string::npos) { size_t e3 = rep.find('\'', g + 20); loc = "global " + rep.substr(g + 20, e3 - g - 20); } else loc = fa + " / " + fb;
            if(loc.compare(0, 12, "global sim::") == 0) continue;   // the harness's own seam state (SimFS/alloc seam flags), not library state
            if(!found.count(loc)) found[loc] = "ThreadSanitizer: conflicting accesses from two tasks: " + fa + " and " + fb + (g != std::string::npos ? " on " + loc : "");
        }
        // one class per run: the alphabetically first racing location that is not a recorded known finding (so a new race is
        // never shadowed by a known one), else the first known one. Report de-duplication is off, so this is a function of the plan.
        for(std::map<std::string, std::string>::iterator it = found.begin(); it != found.end(); ++it) { run.count("race_reports_from_library"); }   // (not part of the event log: TSan may miss in one execution what it reported in another)
        if(const char *dump = getenv("VERIF_C14_DUMP")) { FILE *f = __real_fopen(dump, "a"); if(f) { for(std::map<std::string, std::string>::iterator it = found.begin(); it != found.end(); ++it) fprintf(f, "%s\t%s\n", it->first.c_str(), it->second.c_str()); __real_fclose(f); } }
        if(!found.empty())
        {
            static std::vector<KnownFinding> known = loadKnownFindings("C14");
            std::map<std::string, std::string>::iterator pick = found.end();
            for(std::map<std::string, std::string>::iterator it = found.begin(); it != found.end(); ++it) { Violation v; v.set = true; v.tag = "data-race"; v.sig = it->first; if(!matchKnown(known, v)) { pick = it; break; } }
            if(pick == found.end()) pick = found.begin();
            if(const char *only = getenv("VERIF_ONLY_CLASS")) for(std::map<std::string, std::string>::iterator it = found.begin(); it != found.end(); ++it) if(("data-race|" + it->first).find(only) != std::string::npos) { pick = it; break; }   // re-recording one class on an old tree
            std::string others; for(std::map<std::string, std::string>::iterator it = found.begin(); it != found.end(); ++it) if(it != pick) others += " [" + it->first + "]";
            run.fail("data-race", pick->first, pick->second + (others.empty() ? "" : "; also in this run:" + others));
        }
    }
};

extern "C" __attribute__((used)) const char *__tsan_default_options() { return "halt_on_error=0:exitcode=0:report_thread_leaks=0:report_signal_unsafe=0:history_size=4"; }

int main(int argc, char **argv)
{
    C14R c;
    return driverMain(c, argc, argv);
}
