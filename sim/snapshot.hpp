// Structural invariants of the voice-allocation bookkeeping (C04), evaluated on the live internal
// state through hook H1, and the per-instance key state reconstructed from the register tap (H2).
#pragma once
#include "apiops.hpp"
#include <sstream>

namespace sim {

struct TapCursor
{
    size_t next;
    KeyState keys;
    TapCursor() : next(0) {}
    // consume tap records belonging to this synth
    void consume(const void *synth)
    {
        for(; next < g_tap.recs.size(); ++next)
            if(g_tap.recs[next].synth == synth) keys.apply(g_tap.recs[next]);
    }
};

static inline bool ptrInBanks(OPN2 *synth, const OpnInstMeta *p, size_t &index)
{
    if(p == &OPN2::m_emptyInstrument) { index = 0; return true; }
    for(OPN2::BankMap::iterator it = synth->m_insBanks.begin(); it != synth->m_insBanks.end(); ++it)
    {
        const OpnInstMeta *base = &it->second.ins[0];
        if(p >= base && p < base + 128)
        {
            index = (size_t)(p - base);
            return ((const char *)p - (const char *)base) % sizeof(OpnInstMeta) == 0;
        }
    }
    return false;
}

// returns false (and records the violation) on the first broken invariant
static inline bool checkBookkeeping(OPN2_MIDIPlayer *dev, const KeyState *keys, Run &run, const char *afterOp, bool checkIns = true)
{
    OPNMIDIplay *p = Acc::P(dev);
    OPN2 *synth = p->m_synth.get();
    std::vector<OPNMIDIplay::OpnChannel> &cc = Acc::chipChannels(p);
    std::ostringstream d;
    const size_t nChip = cc.size();
    if(nChip != synth->m_numChannels)
    { d << "m_chipChannels.size()=" << nChip << " != synth channels " << synth->m_numChannels; return run.fail("I0-channel-count", afterOp, d.str()); }
    // MIDI side
    for(size_t mc = 0; mc < p->m_midiChannels.size(); ++mc)
    {
        OPNMIDIplay::MIDIchannel &ch = p->m_midiChannels[mc];
        unsigned gl = 0, ext = 0; size_t cnt = 0;
        bool seen[256]; memset(seen, 0, sizeof seen);
        for(OPNMIDIplay::MIDIchannel::notes_iterator it = ch.activenotes.begin(); !it.is_end(); ++it)
        {
            OPNMIDIplay::MIDIchannel::NoteInfo &ni = it->value;
            if(++cnt > ch.activenotes.capacity() + 1) { d << "activenotes traversal of MIDI channel " << mc << " exceeds capacity"; return run.fail("I3-list-size", afterOp, d.str()); }
            if(seen[ni.note]) { d << "note " << (int)ni.note << " twice in activenotes of MIDI channel " << mc; return run.fail("I3-duplicate-note", afterOp, d.str()); }
            seen[ni.note] = true;
            if(ni.glideRate != HUGE_VAL) ++gl;
            if(ni.ttl > 0) ++ext;
            if(ni.isBlank) continue;
            if(ni.chip_channels_count > OPNMIDIplay::MIDIchannel::NoteInfo::MaxNumPhysItemCount)
            { d << "chip_channels_count " << ni.chip_channels_count; return run.fail("I1-phys-count", afterOp, d.str()); }
            for(unsigned k = 0; k < ni.chip_channels_count; ++k)
            {
                unsigned c = ni.chip_channels[k].chip_chan;
                if(c >= nChip) { d << "note (" << mc << "," << (int)ni.note << ") refers to chip channel " << c << " of " << nChip; return run.fail("I1-dangling-chip-channel", afterOp, d.str()); }
                OPNMIDIplay::OpnChannel::Location loc; loc.MidCh = (uint16_t)mc; loc.note = ni.note;
                if(cc[c].find_user(loc).is_end())
                { d << "note (" << mc << "," << (int)ni.note << ") holds chip channel " << c << " which does not list it as a user"; return run.fail("I1-note-without-user", afterOp, d.str()); }
            }
            if(checkIns)
            {
                size_t idx = 0;
                if(!ni.ains || !ptrInBanks(synth, ni.ains, idx))
                { d << "note (" << mc << "," << (int)ni.note << ") instrument pointer is not an entry of a loaded bank"; return run.fail("I5-instrument-not-in-bank", afterOp, d.str()); }
                if(idx >= 128 || ni.midiins >= 128)
                { d << "note (" << mc << "," << (int)ni.note << ") instrument index " << ni.midiins; return run.fail("I5-instrument-index", afterOp, d.str()); }
            }
        }
        if(cnt != ch.activenotes.size()) { d << "activenotes.size()=" << ch.activenotes.size() << " but traversal finds " << cnt << " (MIDI channel " << mc << ")"; return run.fail("I3-list-size", afterOp, d.str()); }
        if(cnt > ch.activenotes.capacity()) { d << "activenotes over capacity"; return run.fail("I3-list-size", afterOp, d.str()); }
        if(gl != ch.gliding_note_count) { d << "gliding_note_count=" << ch.gliding_note_count << " but " << gl << " gliding notes (MIDI channel " << mc << ")"; return run.fail("I4-gliding-count", afterOp, d.str()); }
        if(ext != ch.extended_note_count) { d << "extended_note_count=" << ch.extended_note_count << " but " << ext << " notes with ttl>0 (MIDI channel " << mc << ")"; return run.fail("I4-extended-count", afterOp, d.str()); }
    }
    // chip side
    for(size_t c = 0; c < nChip; ++c)
    {
        OPNMIDIplay::OpnChannel &oc = cc[c];
        size_t cnt = 0;
        std::set<uint32_t> locs;
        for(OPNMIDIplay::OpnChannel::users_iterator j = oc.users.begin(); !j.is_end(); ++j)
        {
            OPNMIDIplay::OpnChannel::LocationData &ld = j->value;
            if(++cnt > oc.users.capacity() + 1) { d << "users traversal of chip channel " << c << " exceeds capacity"; return run.fail("I3-list-size", afterOp, d.str()); }
            uint32_t key = ((uint32_t)ld.loc.MidCh << 8) | ld.loc.note;
            if(!locs.insert(key).second) { d << "location (" << ld.loc.MidCh << "," << (int)ld.loc.note << ") twice in users of chip channel " << c; return run.fail("I3-duplicate-user", afterOp, d.str()); }
            if(ld.loc.MidCh >= p->m_midiChannels.size()) { d << "user names MIDI channel " << ld.loc.MidCh; return run.fail("I2-user-bad-channel", afterOp, d.str()); }
            if(ld.sustained == OPNMIDIplay::OpnChannel::LocationData::Sustain_None)
            {
                OPNMIDIplay::MIDIchannel::notes_iterator k = p->m_midiChannels[ld.loc.MidCh].find_activenote(ld.loc.note);
                if(k.is_end()) { d << "non-sustained user (" << ld.loc.MidCh << "," << (int)ld.loc.note << ") of chip channel " << c << " has no active note"; return run.fail("I2-user-without-note", afterOp, d.str()); }
                if(!k->value.phys_find((unsigned)c)) { d << "non-sustained user (" << ld.loc.MidCh << "," << (int)ld.loc.note << ") of chip channel " << c << ": its note does not hold that channel"; return run.fail("I2-user-note-mismatch", afterOp, d.str()); }
            }
        }
        if(cnt != oc.users.size()) { d << "users.size()=" << oc.users.size() << " but traversal finds " << cnt << " (chip channel " << c << ")"; return run.fail("I3-list-size", afterOp, d.str()); }
        if(keys)
        {
            bool on = c < keys->on.size() && keys->on[c];
            if(on != (cnt > 0)) { d << "chip channel " << c << " has " << cnt << " user(s) but is keyed " << (on ? "on" : "off") << " at the chip"; return run.fail(on ? "I6-keyed-on-without-user" : "I6-user-but-keyed-off", afterOp, d.str()); }
        }
    }
    return true;
}

// abstract occupancy pattern for the reach measure
static inline uint64_t occupancyHash(OPN2_MIDIPlayer *dev, bool arp)
{
    OPNMIDIplay *p = Acc::P(dev);
    std::vector<OPNMIDIplay::OpnChannel> &cc = Acc::chipChannels(p);
    std::vector<uint32_t> pat;
    for(size_t c = 0; c < cc.size(); ++c)
    {
        uint32_t n = 0, sus = 0;
        for(OPNMIDIplay::OpnChannel::users_iterator j = cc[c].users.begin(); !j.is_end(); ++j) { ++n; sus |= j->value.sustained; }
        pat.push_back((n > 3 ? 3 : n) | (sus << 2) | ((cc[c].koff_time_until_neglible_us > 0 ? 1u : 0u) << 4));
    }
    std::sort(pat.begin(), pat.end());
    Hasher h; for(size_t i = 0; i < pat.size(); ++i) h.add(pat[i]);
    h.add(arp);
    return h.h;
}

} // namespace sim
