// Seeded PRNG for the simulator: splitmix64 for seed derivation, xoshiro256** for streams.
// Every choice of a run (plan, arguments, time slices, task interleaving, faults) is drawn
// from one Rng seeded from (VERIF_SEED, property, run index). Logging never draws from it.
#pragma once
#include <cstdint>
#include <cstddef>
#include <vector>
#include <initializer_list>

namespace sim {

static inline uint64_t splitmix64(uint64_t &x)
{
    uint64_t z = (x += 0x9E3779B97F4A7C15ull);
    z = (z ^ (z >> 30)) * 0xBF58476D1CE4E5B9ull;
    z = (z ^ (z >> 27)) * 0x94D049BB133111EBull;
    return z ^ (z >> 31);
}

static inline uint64_t mix64(uint64_t a, uint64_t b)
{
    uint64_t x = a ^ (b * 0xD6E8FEB86659FD93ull + 0x9E3779B97F4A7C15ull);
    return splitmix64(x);
}

static inline uint64_t hashStr(const char *s)
{
    uint64_t h = 1469598103934665603ull;
    for(; *s; ++s) { h ^= (unsigned char)*s; h *= 1099511628211ull; }
    return h;
}

struct Rng
{
    uint64_t s[4];
    explicit Rng(uint64_t seed = 1) { reseed(seed); }
    void reseed(uint64_t seed)
    {
        uint64_t x = seed;
        for(int i = 0; i < 4; ++i) s[i] = splitmix64(x);
    }
    static inline uint64_t rotl(uint64_t x, int k) { return (x << k) | (x >> (64 - k)); }
    uint64_t next()
    {
        const uint64_t result = rotl(s[1] * 5, 7) * 9;
        const uint64_t t = s[1] << 17;
        s[2] ^= s[0]; s[3] ^= s[1]; s[1] ^= s[2]; s[0] ^= s[3];
        s[2] ^= t; s[3] = rotl(s[3], 45);
        return result;
    }
    // uniform in [0, n)
    uint64_t below(uint64_t n) { return n ? next() % n : 0; }
    // uniform in [a, b]
    int64_t range(int64_t a, int64_t b) { return a + (int64_t)below((uint64_t)(b - a + 1)); }
    bool chance(double p) { return (next() >> 11) * (1.0 / 9007199254740992.0) < p; }
    double unit() { return (next() >> 11) * (1.0 / 9007199254740992.0); }
    double real(double a, double b) { return a + (b - a) * unit(); }
    template<class T> const T &pick(const std::vector<T> &v) { return v[below(v.size())]; }
    template<class T> T pick(std::initializer_list<T> l) { return *(l.begin() + below(l.size())); }
    // weighted pick: returns index
    size_t weighted(const std::vector<int> &w)
    {
        uint64_t tot = 0; for(int x : w) tot += (uint64_t)(x > 0 ? x : 0);
        if(!tot) return 0;
        uint64_t r = below(tot);
        for(size_t i = 0; i < w.size(); ++i)
        {
            uint64_t x = (uint64_t)(w[i] > 0 ? w[i] : 0);
            if(r < x) return i;
            r -= x;
        }
        return w.size() - 1;
    }
};

// FNV-style running hash used for event logs (covers op results, register taps,
// raw-event logs, PCM hashes; never addresses).
struct Hasher
{
    uint64_t h;
    Hasher() : h(0xcbf29ce484222325ull) {}
    void add(uint64_t v) { h = mix64(h, v); }
    void addBytes(const void *p, size_t n)
    {
        const unsigned char *b = (const unsigned char *)p;
        uint64_t x = 1469598103934665603ull;
        for(size_t i = 0; i < n; ++i) { x ^= b[i]; x *= 1099511628211ull; }
        add(x); add(n);
    }
    void addDouble(double d) { uint64_t u; __builtin_memcpy(&u, &d, 8); add(u); }
};

} // namespace sim
