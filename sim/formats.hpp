// Generators for complete music files of every front-end the loader knows (well-formed ones for use as
// fault-injection victims, and header-valid skeletons with structured random content), shared by C01/C18/C14.
#pragma once
#include "songgen.hpp"
#include "lib.hpp"

namespace sim {

static inline void fmtPutBE32(std::vector<uint8_t> &o, uint32_t v) { o.push_back((uint8_t)(v >> 24)); o.push_back((uint8_t)(v >> 16)); o.push_back((uint8_t)(v >> 8)); o.push_back((uint8_t)v); }
static inline void fmtChunk(std::vector<uint8_t> &o, const char *id, const std::vector<uint8_t> &data)
{
    o.insert(o.end(), id, id + 4); fmtPutBE32(o, (uint32_t)data.size()); o.insert(o.end(), data.begin(), data.end()); if(data.size() & 1) o.push_back(0);
}

// a well-formed DMX MUS score
static inline std::vector<uint8_t> randomMus(Rng &r, int nev)
{
    std::vector<uint8_t> score; std::set<int> prim;
    for(int i = 0; i < nev; ++i)
    {
        int ch = r.chance(0.2) ? 15 : (int)r.below(9); if(ch != 15) prim.insert(ch);
        bool last = r.chance(0.6);
        int k = (int)r.weighted({ 20, 30, 10, 6, 14, 6 });
        uint8_t head = (uint8_t)((last ? 0x80 : 0) | ch);
        switch(k)
        {
        case 0: score.push_back(head); score.push_back((uint8_t)r.below(128)); break;
        case 1: { bool v = r.chance(0.5); score.push_back(head | 0x10); score.push_back((uint8_t)(r.below(128) | (v ? 0x80 : 0))); if(v) score.push_back((uint8_t)r.below(128)); break; }
        case 2: score.push_back(head | 0x20); score.push_back((uint8_t)r.below(256)); break;
        case 3: score.push_back(head | 0x30); score.push_back((uint8_t)r.range(10, 14)); break;
        case 4: score.push_back(head | 0x40); score.push_back((uint8_t)r.range(1, 9)); score.push_back((uint8_t)r.below(128)); break;
        default: score.push_back(head | 0x40); score.push_back(0); score.push_back((uint8_t)r.below(128)); break;
        }
        if(last) { uint32_t v = r.chance(0.85) ? (uint32_t)r.range(1, 100) : (uint32_t)r.range(128, 3000); uint8_t b[5]; int n = 0; b[n++] = (uint8_t)(v & 0x7F); while((v >>= 7)) b[n++] = (uint8_t)((v & 0x7F) | 0x80); while(n) score.push_back(b[--n]); }
    }
    score.push_back(0x60);
    int instr = (int)r.below(4);
    std::vector<uint8_t> f = { 'M', 'U', 'S', 0x1A };
    putLE16(f, (unsigned)score.size()); putLE16(f, 16 + 2 * (unsigned)instr); putLE16(f, (unsigned)prim.size()); putLE16(f, 0); putLE16(f, (unsigned)instr); putLE16(f, 0);
    for(int i = 0; i < instr; ++i) putLE16(f, (unsigned)r.below(175));
    f.insert(f.end(), score.begin(), score.end());
    return f;
}

// a well-formed AIL XMI file with `songs` sequences
static inline std::vector<uint8_t> randomXmi(Rng &r, int songs, int nev)
{
    const char *xm = "XMID";
    std::vector<uint8_t> cat; cat.insert(cat.end(), xm, xm + 4);
    for(int s = 0; s < songs; ++s)
    {
        std::vector<uint8_t> d; uint32_t tempo = (uint32_t)r.pick<int>({ 250000, 500000, 750000 }); const bool loopy = r.chance(0.3);
        d.push_back(0xFF); d.push_back(0x51); d.push_back(3); d.push_back((uint8_t)(tempo >> 16)); d.push_back((uint8_t)(tempo >> 8)); d.push_back((uint8_t)tempo);
        for(int i = 0; i < nev; ++i)
        {
            uint32_t dl = r.chance(0.3) ? 0 : (uint32_t)r.range(1, loopy ? 24 : 300);   // loopy songs are short: follow-up histories reach their end and second pass
            while(dl > 127) { d.push_back(127); dl -= 127; } if(dl) d.push_back((uint8_t)dl);
            int ch = (int)r.below(16);
            switch(r.weighted({ 40, loopy ? 45 : 20, 8, 8, 4, 4, 2 }))
            {
            case 0: { d.push_back((uint8_t)(0x90 | ch)); d.push_back((uint8_t)r.below(128)); d.push_back((uint8_t)r.range(1, 127)); uint32_t v = (uint32_t)r.range(1, 2000); uint8_t b[5]; int n = 0; b[n++] = (uint8_t)(v & 0x7F); while((v >>= 7)) b[n++] = (uint8_t)((v & 0x7F) | 0x80); while(n) d.push_back(b[--n]); break; }
            case 1:
                // AIL loop controllers (116 FOR, 117 NEXT/BREAK: value < 64 leaves the loop) in "loopy" songs: unbalanced and nested on purpose
                if(loopy && r.chance(0.6)) { bool isFor = r.chance(0.5); d.push_back((uint8_t)(0xB0 | ch)); d.push_back((uint8_t)(isFor ? 116 : 117)); d.push_back((uint8_t)(isFor ? r.pick<int>({ 0, 1, 2, 3, 127 }) : r.pick<int>({ 0, 1, 63, 64, 127 }))); break; }
                d.push_back((uint8_t)(0xB0 | ch)); d.push_back((uint8_t)r.pick<int>({ 0, 1, 7, 10, 11, 64, 114, 116, 117, 119, 32 })); d.push_back((uint8_t)r.below(128)); break;
            case 2: d.push_back((uint8_t)(0xC0 | ch)); d.push_back((uint8_t)r.below(128)); break;
            case 3: d.push_back((uint8_t)(0xE0 | ch)); d.push_back((uint8_t)r.below(128)); d.push_back((uint8_t)r.below(128)); break;
            case 4: d.push_back((uint8_t)(0xD0 | ch)); d.push_back((uint8_t)r.below(128)); break;
            case 5: d.push_back((uint8_t)(0xA0 | ch)); d.push_back((uint8_t)r.below(128)); d.push_back((uint8_t)r.below(128)); break;
            default: { d.push_back(0xFF); d.push_back((uint8_t)r.pick<int>({ 0x01, 0x06, 0x58 })); int n = (int)r.below(6); d.push_back((uint8_t)n); for(int k = 0; k < n; ++k) d.push_back((uint8_t)r.below(128)); break; }
            }
        }
        d.push_back(0x10); d.push_back(0xFF); d.push_back(0x2F); d.push_back(0x00);
        std::vector<uint8_t> form; form.insert(form.end(), xm, xm + 4);
        if(r.chance(0.4)) { std::vector<uint8_t> timb; int n = (int)r.below(4); putLE16(timb, (unsigned)n); for(int i = 0; i < n; ++i) { timb.push_back((uint8_t)r.below(128)); timb.push_back((uint8_t)r.below(128)); } fmtChunk(form, "TIMB", timb); }
        if(r.chance(0.3)) { std::vector<uint8_t> rb; int n = (int)r.below(3); putLE16(rb, (unsigned)n); for(int i = 0; i < n; ++i) { putLE16(rb, (unsigned)r.below(130)); uint32_t off = (uint32_t)r.below(d.size() + 4); rb.push_back((uint8_t)off); rb.push_back((uint8_t)(off >> 8)); rb.push_back((uint8_t)(off >> 16)); rb.push_back((uint8_t)(off >> 24)); } fmtChunk(form, "RBRN", rb); }
        fmtChunk(form, "EVNT", d);
        fmtChunk(cat, "FORM", form);
    }
    std::vector<uint8_t> xdir; const char *xd = "XDIR"; xdir.insert(xdir.end(), xd, xd + 4);
    { std::vector<uint8_t> info; putLE16(info, (unsigned)songs); fmtChunk(xdir, "INFO", info); }
    std::vector<uint8_t> file; fmtChunk(file, "FORM", xdir); fmtChunk(file, "CAT ", cat);
    return file;
}

// structured random track bytes: mostly plausible events, spiced with the values parsers trip over
static inline std::vector<uint8_t> fuzzTrack(Rng &r, int n)
{
    std::vector<uint8_t> t;
    auto varlen = [&]() {
        switch(r.weighted({ 60, 10, 5, 3, 2 }))
        {
        case 0: t.push_back((uint8_t)r.below(128)); break;
        case 1: t.push_back((uint8_t)(0x80 | r.below(128))); t.push_back((uint8_t)r.below(128)); break;
        case 2: { int k = (int)r.range(3, 5); for(int i = 0; i < k - 1; ++i) t.push_back((uint8_t)(0x80 | r.below(128))); t.push_back((uint8_t)r.below(128)); break; }
        case 3:   // 64-bit wrapping quantities: all-ones of 6..10 bytes, or exactly 2^64-k / 2^63+-k / a random 64-bit value in 10 groups
            if(r.chance(0.4)) { int k = (int)r.range(6, 10); for(int i = 0; i < k - 1; ++i) t.push_back(0xFF); t.push_back(0x7F); }
            else
            {
                uint64_t v = r.chance(0.6) ? (uint64_t)0 - (uint64_t)r.range(1, 48) : (r.chance(0.5) ? ((uint64_t)1 << 63) + (uint64_t)r.range(0, 64) - 32 : r.next());
                for(int g = 9; g >= 1; --g) t.push_back((uint8_t)(0x80 | ((v >> (7 * g)) & 0x7F)));
                t.push_back((uint8_t)(v & 0x7F));
            }
            break;
        default: for(int i = 0; i < 3; ++i) t.push_back(0xFF); break;                                                  // unterminated
        }
    };
    for(int i = 0; i < n; ++i)
    {
        varlen();
        switch(r.weighted({ 30, 12, 6, 6, 10, 8, 4, 4, 2 }))
        {
        case 0: t.push_back((uint8_t)(0x90 | r.below(16))); t.push_back((uint8_t)r.below(256)); t.push_back((uint8_t)r.below(256)); break;
        case 1: t.push_back((uint8_t)(0xB0 | r.below(16))); t.push_back((uint8_t)r.pick<int>({ 0, 6, 7, 32, 64, 100, 101, 110, 111, 113, 116, 117, 119, 121, 255 })); t.push_back((uint8_t)r.below(256)); break;
        case 2: t.push_back((uint8_t)(0xC0 | r.below(16))); t.push_back((uint8_t)r.below(256)); break;
        case 3: t.push_back((uint8_t)r.below(128)); t.push_back((uint8_t)r.below(128)); break;                       // running status (possibly at track start)
        case 4: { t.push_back(0xFF); t.push_back((uint8_t)r.pick<int>({ 0x01, 0x02, 0x03, 0x06, 0x09, 0x2F, 0x51, 0x58, 0x7F, 0xE1, 0xE4 })); int len = (int)r.below(12); bool lie = r.chance(0.2); if(lie) varlen(); else t.push_back((uint8_t)len);
                  const char *mk[] = { "loopStart", "loopEnd", "loopstart=3", "loopend=", "LOOPSTART" }; if(r.chance(0.3)) { const char *s = mk[r.below(5)]; if(!lie) t.back() = (uint8_t)strlen(s); t.insert(t.end(), s, s + strlen(s)); } else for(int k = 0; k < len; ++k) t.push_back((uint8_t)r.below(256)); break; }
        case 5: { t.push_back(r.chance(0.7) ? 0xF0 : 0xF7); int len = (int)r.below(14); if(r.chance(0.2)) varlen(); else t.push_back((uint8_t)len); for(int k = 0; k < len; ++k) t.push_back((uint8_t)r.below(256)); break; }
        case 6: t.push_back((uint8_t)r.pick<int>({ 0xF2, 0xF3, 0xF1, 0xF4, 0xF8 })); t.push_back((uint8_t)r.below(128)); break;
        case 7: t.push_back((uint8_t)(0xE0 | r.below(16))); t.push_back((uint8_t)r.below(256)); t.push_back((uint8_t)r.below(256)); break;
        default: t.push_back(0xFF); break;                                                                              // 0xFF as the (possibly) last byte
        }
    }
    // "storm" of one stateful meta kind with pairwise distinct payloads (device/port names allocate per-name state in the
    // player, markers and tempo changes accumulate in the time line): 16..64 of them, rarely thousands
    if(r.chance(0.08))
    {
        int k = r.chance(0.85) ? (int)r.range(14, 64) : (int)r.range(300, 4000);
        uint8_t kind = (uint8_t)r.pick<int>({ 0x09, 0x09, 0x09, 0x21, 0x06, 0x51, 0x03 });
        for(int i = 0; i < k; ++i)
        {
            t.push_back((uint8_t)r.below(3)); t.push_back(0xFF); t.push_back(kind);
            if(kind == 0x51) { t.push_back(3); t.push_back((uint8_t)(1 + (i & 7))); t.push_back((uint8_t)(i >> 8)); t.push_back((uint8_t)i); }
            else { t.push_back(2); t.push_back((uint8_t)(0x21 + (i % 90))); t.push_back((uint8_t)(0x21 + (i / 90))); }
            if(r.chance(0.5)) { t.push_back(1); t.push_back((uint8_t)(0x90 | r.below(16))); t.push_back((uint8_t)r.range(30, 90)); t.push_back((uint8_t)r.below(128)); }
        }
    }
    if(r.chance(0.5)) { t.push_back(0); t.push_back(0xFF); t.push_back(0x2F); t.push_back(0); }
    return t;
}

static inline uint32_t fuzzLen(Rng &r, uint32_t exact)
{
    switch(r.weighted({ 55, 6, 6, 6, 6, 6, 5, 5, 5 }))
    {
    default: case 0: return exact; case 1: return 0; case 2: return 1; case 3: return exact + 1; case 4: return exact ? exact - 1 : 0;
    case 5: return 0x7FFFFFFFu; case 6: return 0xFFFFFFF8u; case 7: return 0xFFFFFFFFu; case 8: return exact + (uint32_t)r.below(64);
    }
}

// header-valid skeleton for one of the eight detectors + structured random content
static inline std::vector<uint8_t> fuzzMusicFile(Rng &r, int &detector)
{
    std::vector<uint8_t> f;
    detector = (int)r.weighted({ 30, 8, 8, 14, 16, 8, 8, 8 });
    switch(detector)
    {
    case 0: case 1: // SMF / RMI
    {
        int nt = (int)r.range(0, 5);
        std::vector<uint8_t> s; const char *h = "MThd"; s.insert(s.end(), h, h + 4); fmtPutBE32(s, 6);
        unsigned fmtv = (unsigned)r.pick<int>({ 0, 1, 1, 2, 3, 0xFFFF }); s.push_back((uint8_t)(fmtv >> 8)); s.push_back((uint8_t)fmtv);
        unsigned ntw = r.chance(0.8) ? (unsigned)nt : (unsigned)r.pick<int>({ 0, 1, 255, 65535 }); s.push_back((uint8_t)(ntw >> 8)); s.push_back((uint8_t)ntw);
        unsigned div = (unsigned)r.pick<int>({ 0, 1, 96, 480, 0x7FFF, 0x8000, 0xE250, 0xFFFF }); s.push_back((uint8_t)(div >> 8)); s.push_back((uint8_t)div);
        for(int t = 0; t < nt; ++t)
        {
            std::vector<uint8_t> td = fuzzTrack(r, (int)r.range(0, 40));
            const char *m = r.chance(0.95) ? "MTrk" : "MTrx"; s.insert(s.end(), m, m + 4); fmtPutBE32(s, fuzzLen(r, (uint32_t)td.size())); s.insert(s.end(), td.begin(), td.end());
        }
        if(detector == 1) { std::vector<uint8_t> w; const char *q = "RIFF"; w.insert(w.end(), q, q + 4); uint32_t z = fuzzLen(r, (uint32_t)s.size() + 12); w.push_back((uint8_t)z); w.push_back((uint8_t)(z >> 8)); w.push_back((uint8_t)(z >> 16)); w.push_back((uint8_t)(z >> 24)); const char *m = "RMIDdata"; w.insert(w.end(), m, m + 8); uint32_t ds = fuzzLen(r, (uint32_t)s.size()); w.push_back((uint8_t)ds); w.push_back((uint8_t)(ds >> 8)); w.push_back((uint8_t)(ds >> 16)); w.push_back((uint8_t)(ds >> 24)); w.insert(w.end(), s.begin(), s.end()); f = w; }
        else f = s;
        break;
    }
    case 2: // GMF
    {
        const char *g = "GMF\x01"; f.insert(f.end(), g, g + 4); for(int i = 0; i < 3; ++i) f.push_back((uint8_t)r.below(256));
        std::vector<uint8_t> td = fuzzTrack(r, (int)r.range(0, 40)); f.insert(f.end(), td.begin(), td.end());
        break;
    }
    case 3: // MUS
    {
        std::vector<uint8_t> m = randomMus(r, (int)r.range(0, 40));
        // lie about the header fields
        if(r.chance(0.6)) { unsigned v = (unsigned)r.pick<int>({ 0, 1, 14, 15, 16, 0xFFFF, (int)m.size(), (int)m.size() - 1 }); size_t at = (size_t)r.pick<int>({ 4, 6, 8, 12 }); m[at] = (uint8_t)v; m[at + 1] = (uint8_t)(v >> 8); }
        if(r.chance(0.4) && m.size() > 20) { size_t at = 16 + r.below(m.size() - 16); m[at] = (uint8_t)r.pick<int>({ 0x30, 0x3F, 0x40, 0x4F, 0x50, 0x70, 0xFF, 0x90 }); }
        if(r.chance(0.3) && m.size() > 17) m.resize(16 + r.below(m.size() - 16));
        f = m; break;
    }
    case 4: // XMI
    {
        std::vector<uint8_t> x = randomXmi(r, (int)r.range(1, 3), (int)r.range(0, 30));
        int nmut = (int)r.below(4);
        for(int k = 0; k < nmut && x.size() > 30; ++k)
        {
            // chunk lengths and counts are the interesting bytes: find a chunk id and overwrite its length
            size_t at = 12 + r.below(x.size() - 20);
            static const char *ids[] = { "FORM", "EVNT", "TIMB", "RBRN", "INFO", "CAT " };
            for(size_t p = at; p + 8 < x.size(); ++p) { bool hit = false; for(int q = 0; q < 6; ++q) if(!memcmp(&x[p], ids[q], 4)) hit = true; if(hit) { uint32_t v = fuzzLen(r, ((uint32_t)x[p + 4] << 24) | ((uint32_t)x[p + 5] << 16) | ((uint32_t)x[p + 6] << 8) | x[p + 7]); x[p + 4] = (uint8_t)(v >> 24); x[p + 5] = (uint8_t)(v >> 16); x[p + 6] = (uint8_t)(v >> 8); x[p + 7] = (uint8_t)v; break; } }
        }
        if(r.chance(0.3)) { size_t p = 0; for(; p + 10 < x.size(); ++p) if(!memcmp(&x[p], "INFO", 4)) break; if(p + 10 < x.size()) { unsigned v = (unsigned)r.pick<int>({ 0, 1, 2, 7, 255, 65535 }); x[p + 8] = (uint8_t)v; x[p + 9] = (uint8_t)(v >> 8); } }
        if(r.chance(0.3)) x.resize(14 + r.below(x.size() - 14));
        f = x; break;
    }
    case 5: // CMF
    {
        const char *c = "CTMF"; f.insert(f.end(), c, c + 4); putLE16(f, 0x0101);
        unsigned insStart = (unsigned)r.pick<int>({ 40, 0, 20, 0xFFFF, 41 }), musStart = (unsigned)r.pick<int>({ 56, 0, 40, 0xFFFF, 200 });
        putLE16(f, insStart); putLE16(f, musStart); putLE16(f, (unsigned)r.pick<int>({ 192, 0, 1, 0xFFFF })); putLE16(f, (unsigned)r.pick<int>({ 96, 0, 1, 0xFFFF }));
        putLE16(f, 0); putLE16(f, 0); putLE16(f, 0); for(int i = 0; i < 16; ++i) f.push_back((uint8_t)r.below(2));
        putLE16(f, (unsigned)r.pick<int>({ 1, 0, 2, 0xFFFF, 128 })); putLE16(f, 120);
        int n = (int)r.below(48); for(int i = 0; i < n; ++i) f.push_back((uint8_t)r.below(256));
        std::vector<uint8_t> td = fuzzTrack(r, (int)r.range(0, 20)); f.insert(f.end(), td.begin(), td.end());
        break;
    }
    case 6: // IMF: first two bytes a length (multiple of 4 or 0), then reg/val/delay quads whose first-word sum exceeds the second
    {
        int quads = (int)r.range(4, 60); unsigned len = r.chance(0.5) ? 0u : (unsigned)(quads * 4);
        if(len) putLE16(f, r.chance(0.8) ? len : (unsigned)r.pick<int>({ 4, 0xFFFC, 8 }));
        for(int i = 0; i < quads; ++i) { f.push_back((uint8_t)r.below(256)); f.push_back((uint8_t)r.range(64, 255)); f.push_back((uint8_t)r.below(r.chance(0.1) ? 256 : 8)); f.push_back((uint8_t)(r.chance(0.05) ? r.below(256) : 0)); }
        while(f.size() < 14) f.push_back(0xFF);
        break;
    }
    default: // EA-MUS (RSXX): head[0] >= 0x5D, "rsxx}u" at head[0]-0x10
    {
        unsigned start = (unsigned)r.range(0x5D, 0x7F);
        f.assign(start, 0); f[0] = (uint8_t)start; for(size_t i = 1; i < f.size(); ++i) f[i] = (uint8_t)r.below(4);
        f[0] = (uint8_t)start; f[1] = 0xFF; f[2] = 0xFF; // make the IMF checksum shape fail (sum1 <= sum2)
        const char *id = "rsxx}u"; memcpy(&f[start - 0x10], id, 6);
        std::vector<uint8_t> td = fuzzTrack(r, (int)r.range(0, 30)); if(!td.empty()) td.erase(td.begin()); // RSXX tracks start with an event, not a delta
        f.insert(f.end(), td.begin(), td.end());
        break;
    }
    }
    return f;
}

// a well-formed file of a random kind (victim for storage/libc faults)
// a well-formed Creative Music File: parses completely; libOPNMIDI then refuses it (it has no OPL synth), which makes it the
// one kind of "rejected music file" that is rejected after a successful parse
static inline std::vector<uint8_t> wellFormedCmf(Rng &r)
{
    std::vector<uint8_t> f; const char *c = "CTMF"; f.insert(f.end(), c, c + 4); putLE16(f, 0x0101);
    unsigned nIns = (unsigned)r.range(1, 4), insStart = 40, musStart = insStart + 16 * nIns;
    putLE16(f, insStart); putLE16(f, musStart); putLE16(f, (unsigned)r.pick<int>({ 96, 192, 384 })); putLE16(f, (unsigned)r.pick<int>({ 48, 96, 120 }));
    putLE16(f, 0); putLE16(f, 0); putLE16(f, 0); for(int i = 0; i < 16; ++i) f.push_back((uint8_t)(i < 4));
    putLE16(f, nIns); putLE16(f, 120);
    for(unsigned i = 0; i < nIns * 16; ++i) f.push_back((uint8_t)r.below(256));
    int notes = (int)r.range(1, 12);
    for(int i = 0; i < notes; ++i) { uint8_t ch = (uint8_t)r.below(4), key = (uint8_t)r.range(36, 84); f.push_back((uint8_t)r.below(60)); f.push_back((uint8_t)(0x90 | ch)); f.push_back(key); f.push_back(100); f.push_back((uint8_t)r.range(1, 90)); f.push_back((uint8_t)(0x80 | ch)); f.push_back(key); f.push_back(0); }
    f.push_back(0); f.push_back(0xFF); f.push_back(0x2F); f.push_back(0);
    return f;
}

static inline std::vector<uint8_t> validMusicFile(Rng &r, int &kind)
{
    kind = (int)r.weighted({ 40, 10, 10, 20, 20 });
    switch(kind)
    {
    case 0: { SongOpts o; o.maxSeconds = 4.0; o.maxEventsPerTrack = 30; o.loopMarkers = 0; Song s = genSong(r, o); return writeSmf(s, r.chance(0.5)); }
    case 1: return stockSong(r.next(), 2);
    case 2: return stockSong(r.next(), 3);
    case 3: return randomMus(r, (int)r.range(1, 50));
    default: return randomXmi(r, (int)r.range(1, 4), (int)r.range(1, 40));
    }
}

} // namespace sim
