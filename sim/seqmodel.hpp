// Reference model of what a Standard MIDI File must deliver (C07/C08/C09/C17): per track the ordered
// list (time, event) with the End-of-Track rule, plus the raw-event-hook recorder and the key that maps a
// delivered raw event back to the unique file event it came from.
#pragma once
#include "songgen.hpp"
#include "lib.hpp"
#include <sstream>

namespace sim {

struct ExpEvent
{
    int track;
    int indexInTrack;
    uint32_t tick;
    double time;        // song seconds
    uint64_t key;       // content key (unique per file except EOT)
    uint8_t kind;       // 0x8..0xE channel status nibble, 0xF0 sysex, 0xFF meta
    uint8_t metaType;
    uint8_t ch, d1, d2;
    bool isEOT;
    bool soundingOff;   // note-off of a note that was sounding before this tick (per-track file state)
};

static inline uint64_t keyChannel(unsigned nib, unsigned ch, unsigned d1, unsigned d2) { return ((uint64_t)nib << 40) | ((uint64_t)ch << 32) | ((uint64_t)d1 << 8) | d2; }
static inline uint64_t keyBytes(unsigned kind, unsigned sub, const uint8_t *p, size_t n)
{
    Hasher h; h.add(kind); h.add(sub); h.addBytes(p, n);
    return h.h | (1ull << 63);
}

struct RefSong
{
    std::vector<std::vector<ExpEvent> > tracks; // file order
    std::vector<double> trackEnd;               // time of the End-of-Track delivery
    double length;                              // latest delivery time + 1 s
    RefTiming timing;

    void build(const Song &s)
    {
        timing.build(s);
        tracks.assign(s.tracks.size(), std::vector<ExpEvent>());
        trackEnd.assign(s.tracks.size(), 0.0);
        double latest = 0;
        for(size_t tk = 0; tk < s.tracks.size(); ++tk)
        {
            const STrack &t = s.tracks[tk];
            std::set<uint32_t> on; // (ch<<8|note) sounding before the current tick
            std::set<uint32_t> onThisTick; uint32_t curTick = 0xFFFFFFFFu;
            for(size_t i = 0; i < t.ev.size(); ++i)
            {
                const SEvent &e = t.ev[i];
                if(e.tick != curTick) { curTick = e.tick; for(std::set<uint32_t>::iterator it = onThisTick.begin(); it != onThisTick.end(); ++it) on.insert(*it); onThisTick.clear(); }
                ExpEvent x; x.track = (int)tk; x.indexInTrack = (int)i; x.tick = e.tick; x.time = timing.secondsAt(e.tick);
                x.isEOT = false; x.soundingOff = false; x.metaType = 0; x.ch = e.ch; x.d1 = e.d1; x.d2 = e.d2;
                if(e.status == 0xFF) { x.kind = 0xFF; x.metaType = e.metaType; x.key = keyBytes(0xFF, e.metaType, e.data.data(), e.data.size()); }
                else if(e.status == 0xF0 || e.status == 0xF7)
                {
                    x.kind = 0xF0;
                    std::vector<uint8_t> d; d.push_back(e.status); d.insert(d.end(), e.data.begin(), e.data.end());
                    x.key = keyBytes(0xF0, 0, d.data(), d.size());
                }
                else
                {
                    unsigned nib = e.status >> 4, d2 = ((nib == 0xC || nib == 0xD) ? 0u : e.d2);
                    if(nib == 0x9 && e.d2 == 0) nib = 0x8;
                    x.kind = (uint8_t)nib; x.key = keyChannel(nib, e.ch, e.d1, d2);
                    uint32_t nk = ((uint32_t)e.ch << 8) | e.d1;
                    if(nib == 0x8) { if(on.count(nk)) { x.soundingOff = true; on.erase(nk); } else onThisTick.erase(nk); }   // a sounding-note off precedes this tick's note-ons, so it does not cancel them
                    if(nib == 0x9) onThisTick.insert(nk);
                }
                tracks[tk].push_back(x);
                if(x.time > latest) latest = x.time;
            }
            if(t.hasEOT)
            {
                ExpEvent x; x.track = (int)tk; x.indexInTrack = (int)t.ev.size(); x.tick = t.eotTick; x.kind = 0xFF; x.metaType = 0x2F; x.isEOT = true; x.soundingOff = false;
                x.ch = x.d1 = x.d2 = 0; x.key = 0x2F;
                uint32_t lastTick = t.ev.empty() ? 0 : t.ev.back().tick;
                // an End-of-Track standing alone at its tick is delivered with the preceding event
                uint32_t effTick = (t.eotTick > lastTick) ? lastTick : t.eotTick;
                x.time = timing.secondsAt(effTick);
                trackEnd[tk] = x.time;
                tracks[tk].push_back(x);
                if(x.time > latest) latest = x.time;
            }
        }
        length = latest + 1.0;
    }
};

// ---------------------------------------------------------------------------------------
struct RawEvt
{
    uint8_t type, subtype, channel;
    std::vector<uint8_t> data;
    int call;               // index of the API call during which it was delivered
    uint64_t key() const
    {
        if(type == 0xFF) return subtype == 0x2F ? 0x2Full : keyBytes(0xFF, subtype, data.data(), data.size());
        if(type == 0xF0 || type == 0xF7) return keyBytes(0xF0, 0, data.data(), data.size());
        unsigned d1 = data.size() > 0 ? data[0] : 0, d2 = data.size() > 1 ? data[1] : 0;
        if(type == 0xC || type == 0xD) d2 = 0;
        return keyChannel(type, channel, d1, d2);
    }
};

struct RawRecorder
{
    std::vector<RawEvt> ev;
    int curCall;
    uint64_t loopStarts, loopEnds;
    std::vector<int> loopStartCalls, loopEndCalls;
    RawRecorder() : curCall(0), loopStarts(0), loopEnds(0) {}
    static void cb(void *ud, OPN2_UInt8 type, OPN2_UInt8 subtype, OPN2_UInt8 channel, const OPN2_UInt8 *data, size_t len)
    {
        RawRecorder *r = (RawRecorder *)ud;
        RawEvt e; e.type = type; e.subtype = subtype; e.channel = channel; if(len) e.data.assign(data, data + len); e.call = r->curCall;
        r->ev.push_back(e);
    }
    static void cbLoopStart(void *ud) { RawRecorder *r = (RawRecorder *)ud; ++r->loopStarts; r->loopStartCalls.push_back(r->curCall); }
    static void cbLoopEnd(void *ud) { RawRecorder *r = (RawRecorder *)ud; ++r->loopEnds; r->loopEndCalls.push_back(r->curCall); }
    // the same two hooks registered with two different user-data objects: each callback must get back its own
    struct HookUd { RawRecorder *rec; int which; };
    HookUd udStart, udEnd; uint64_t wrongUserData;
    static void cbLoopStart2(void *ud) { HookUd *h = (HookUd *)ud; if(h->which != 1) ++h->rec->wrongUserData; cbLoopStart(h->rec); }
    static void cbLoopEnd2(void *ud) { HookUd *h = (HookUd *)ud; if(h->which != 2) ++h->rec->wrongUserData; cbLoopEnd(h->rec); }
    void initHookUd() { udStart.rec = this; udStart.which = 1; udEnd.rec = this; udEnd.which = 2; wrongUserData = 0; }
    // the sequencer's own "song begin" pseudo event (0xFF, subtype 0x101 truncated to 0x01, no data) is
    // not a file event: generators never emit empty text metas, so it is recognisable
    static bool isSongBeginArtifact(const RawEvt &e) { return e.type == 0xFF && e.subtype == 0x01 && e.data.empty(); }
};

} // namespace sim
