// Song generator: abstract tagged event lists -> Standard MIDI File bytes (own writer), plus the
// reference timing model RefSmf (tick -> seconds through the tempo map). Every generated channel /
// SysEx / meta event is globally unique in content so that a delivery observed on the raw-event hook is
// attributable to exactly one file event (and therefore to one track).
#pragma once
#include "rng.hpp"
#include <vector>
#include <set>
#include <map>
#include <string>
#include <cstdint>
#include <cstring>
#include <algorithm>

namespace sim {

struct SEvent
{
    uint32_t tick;
    uint8_t status;     // 0x80..0xE0 (high nibble), 0xF0/0xF7 sysex, 0xFF meta
    uint8_t ch;
    uint8_t d1, d2;
    uint8_t metaType;
    std::vector<uint8_t> data; // sysex payload / meta payload
    int id;
    SEvent() : tick(0), status(0), ch(0), d1(0), d2(0), metaType(0), id(-1) {}
};

struct STrack
{
    std::vector<SEvent> ev;     // non-decreasing tick, file order
    bool hasEOT;
    uint32_t eotTick;
    std::vector<uint8_t> trailing;  // junk after EOT
    STrack() : hasEOT(true), eotTick(0) {}
};

struct Song
{
    int format;
    int division;
    std::vector<STrack> tracks;
    Song() : format(1), division(96) {}
};

static inline void putVarLen(std::vector<uint8_t> &o, uint32_t v)
{
    uint8_t b[5]; int n = 0;
    b[n++] = (uint8_t)(v & 0x7F);
    while((v >>= 7)) b[n++] = (uint8_t)((v & 0x7F) | 0x80);
    while(n) o.push_back(b[--n]);
}
static inline void putBE32(std::vector<uint8_t> &o, uint32_t v) { o.push_back((uint8_t)(v >> 24)); o.push_back((uint8_t)(v >> 16)); o.push_back((uint8_t)(v >> 8)); o.push_back((uint8_t)v); }

static inline std::vector<uint8_t> writeTrack(const STrack &t, bool runningStatus)
{
    std::vector<uint8_t> o;
    uint32_t last = 0; int status = -1;
    for(size_t i = 0; i < t.ev.size(); ++i)
    {
        const SEvent &e = t.ev[i];
        putVarLen(o, e.tick - last); last = e.tick;
        if(e.status == 0xFF)
        {
            o.push_back(0xFF); o.push_back(e.metaType); putVarLen(o, (uint32_t)e.data.size());
            o.insert(o.end(), e.data.begin(), e.data.end());
            // (the library keeps running status across meta/sysex events, like most lenient readers; we
            // cancel it, as the SMF standard says, so both interpretations agree)
            status = -1;
        }
        else if(e.status == 0xF0 || e.status == 0xF7)
        {
            o.push_back(e.status); putVarLen(o, (uint32_t)e.data.size());
            o.insert(o.end(), e.data.begin(), e.data.end());
            status = -1;
        }
        else
        {
            int st = (e.status & 0xF0) | (e.ch & 0x0F);
            if(!(runningStatus && st == status)) o.push_back((uint8_t)st);
            status = st;
            o.push_back(e.d1);
            if((e.status & 0xF0) != 0xC0 && (e.status & 0xF0) != 0xD0) o.push_back(e.d2);
        }
    }
    if(t.hasEOT)
    {
        putVarLen(o, t.eotTick - last);
        o.push_back(0xFF); o.push_back(0x2F); o.push_back(0x00);
    }
    o.insert(o.end(), t.trailing.begin(), t.trailing.end());
    return o;
}

static inline std::vector<uint8_t> writeSmf(const Song &s, bool runningStatus)
{
    std::vector<uint8_t> o;
    const char *h = "MThd"; o.insert(o.end(), h, h + 4); putBE32(o, 6);
    o.push_back(0); o.push_back((uint8_t)s.format);
    o.push_back((uint8_t)(s.tracks.size() >> 8)); o.push_back((uint8_t)s.tracks.size());
    o.push_back((uint8_t)(s.division >> 8)); o.push_back((uint8_t)s.division);
    for(size_t i = 0; i < s.tracks.size(); ++i)
    {
        std::vector<uint8_t> t = writeTrack(s.tracks[i], runningStatus);
        const char *m = "MTrk"; o.insert(o.end(), m, m + 4); putBE32(o, (uint32_t)t.size());
        o.insert(o.end(), t.begin(), t.end());
    }
    return o;
}

static inline std::vector<uint8_t> wrapRmi(const std::vector<uint8_t> &smf)
{
    std::vector<uint8_t> o;
    const char *r = "RIFF"; o.insert(o.end(), r, r + 4);
    uint32_t sz = (uint32_t)smf.size() + 12;
    o.push_back((uint8_t)sz); o.push_back((uint8_t)(sz >> 8)); o.push_back((uint8_t)(sz >> 16)); o.push_back((uint8_t)(sz >> 24));
    const char *m = "RMIDdata"; o.insert(o.end(), m, m + 8);
    uint32_t ds = (uint32_t)smf.size();
    o.push_back((uint8_t)ds); o.push_back((uint8_t)(ds >> 8)); o.push_back((uint8_t)(ds >> 16)); o.push_back((uint8_t)(ds >> 24));
    o.insert(o.end(), smf.begin(), smf.end());
    if(o.size() & 1) o.push_back(0);
    return o;
}

// ---------------------------------------------------------------------------------------
// reference timing: tempo events are taken from track 0 only (the property's precondition)
struct RefTiming
{
    int division;
    std::vector<std::pair<uint32_t, uint32_t> > tempos; // (tick, us per quarter)
    void build(const Song &s)
    {
        division = s.division; tempos.clear();
        if(s.tracks.empty()) return;
        const STrack &t = s.tracks[0];
        for(size_t i = 0; i < t.ev.size(); ++i)
            if(t.ev[i].status == 0xFF && t.ev[i].metaType == 0x51 && t.ev[i].data.size() == 3)
                tempos.push_back(std::make_pair(t.ev[i].tick, ((uint32_t)t.ev[i].data[0] << 16) | ((uint32_t)t.ev[i].data[1] << 8) | t.ev[i].data[2]));
    }
    double secondsAt(uint32_t tick) const
    {
        double t = 0; uint32_t cur = 0; double usPerQ = 500000.0;
        for(size_t i = 0; i < tempos.size() && tempos[i].first < tick; ++i)
        {
            t += (double)(tempos[i].first - cur) * usPerQ / (double)division / 1e6;
            cur = tempos[i].first; usPerQ = (double)tempos[i].second;
        }
        t += (double)(tick - cur) * usPerQ / (double)division / 1e6;
        return t;
    }
};

// ---------------------------------------------------------------------------------------
struct SongOpts
{
    int maxTracks;
    int maxEventsPerTrack;
    bool tempoChanges;
    bool allowSysex, allowMeta;
    bool controllerRich;    // program/bank/CC7/10/11/64/66/67/RPN/bend at many ticks (C08)
    bool eotVariants;       // missing EOT, trailing junk, EOT with company/alone
    double maxSeconds;      // approximate cap of the song length
    int loopMarkers;        // 0: none (generator never emits CC110/111 or loop markers)
    bool smallAlphabet;     // notes drawn from 3 channels x 6 keys: different songs collide on the same (channel, key)
    SongOpts() : maxTracks(4), maxEventsPerTrack(30), tempoChanges(true), allowSysex(true), allowMeta(true),
        controllerRich(false), eotVariants(true), maxSeconds(12.0), loopMarkers(0), smallAlphabet(false) {}
};

struct UniqueTags
{
    std::set<uint64_t> used;
    bool take(uint64_t k) { return used.insert(k).second; }
};

static inline Song genSong(Rng &r, const SongOpts &o, UniqueTags *tagsOut = NULL)
{
    Song s; UniqueTags localTags; UniqueTags &tags = tagsOut ? *tagsOut : localTags;
    int nt = (int)r.range(1, o.maxTracks);
    s.format = nt == 1 ? (r.chance(0.7) ? 0 : 1) : 1;
    s.division = r.chance(0.6) ? r.pick<int>({ 24, 48, 96, 120, 192, 384, 480, 960 }) : (r.chance(0.5) ? (int)r.range(1, 23) : (int)r.range(1, 32767));
    // ticks-per-second at default tempo = division*2; choose tick steps so the whole song stays below maxSeconds
    double tps = s.division * 2.0;
    int idCounter = 0;
    s.tracks.resize((size_t)nt);
    static const int safeCtrls[] = { 1, 5, 7, 10, 11, 37, 64, 65, 66, 67, 71, 74, 91, 93, 98, 99, 100, 101, 6, 38, 0, 32 };
    for(int tk = 0; tk < nt; ++tk)
    {
        STrack &t = s.tracks[(size_t)tk];
        int ne = (int)r.range(tk == 0 ? 3 : 1, o.maxEventsPerTrack);
        uint32_t tick = 0;
        double secBudget = o.maxSeconds * r.real(0.3, 1.0);
        uint32_t maxStep = (uint32_t)std::max(1.0, secBudget * tps / (double)ne * 2.0);
        std::vector<std::pair<int, int> > sounding; // (ch, note) currently on in this track
        std::vector<std::pair<int, int> > struck;   // every (ch, note) this track has struck so far: re-strikes of the same key are drawn from here
        int zeroLenOff = -1;                         // >= 0: the next event is the note-off of sounding[zeroLenOff] at the same tick (a zero-length note)
        for(int i = 0; i < ne; ++i)
        {
            // delta: clusters of zero, small steps, occasional big gaps
            uint32_t step = r.chance(0.3) ? 0 : (r.chance(0.8) ? (uint32_t)r.range(1, maxStep) : (uint32_t)r.range(maxStep, maxStep * 3));
            if(i == 0 && r.chance(0.5)) step = 0;
            if(zeroLenOff >= 0) step = 0;
            tick += step;
            SEvent e; e.tick = tick; e.id = idCounter++;
            int kind = (int)r.weighted({ 30, 18, 16, 6, 6, 4, 3, o.allowSysex ? 4 : 0, o.allowMeta ? 5 : 0, (o.tempoChanges && tk == 0) ? 5 : 0 });
            if(o.controllerRich) kind = (int)r.weighted({ 14, 8, 40, 14, 14, 0, 0, 0, 2, (o.tempoChanges && tk == 0) ? 6 : 0 });
            if(zeroLenOff >= 0) kind = 1;
            int ch = (int)r.below(16);
            bool ok = false;
            for(int attempt = 0; attempt < 40 && !ok; ++attempt)
            {
                e.data.clear();
                switch(kind)
                {
                case 0: // note on
                    e.status = 0x90; e.ch = (uint8_t)ch; e.d1 = (uint8_t)r.range(12, 110); e.d2 = (uint8_t)r.range(1, 127);
                    if(r.chance(0.04)) e.d1 = (uint8_t)r.pick<int>({ 0, 1, 126, 127 });   // the ends of the key range
                    if(o.smallAlphabet) { e.ch = (uint8_t)r.pick<int>({ 0, 1, 9 }); e.d1 = (uint8_t)r.pick<int>({ 36, 40, 60, 62, 64, 67 }); }
                    if(!struck.empty() && r.chance(0.35)) { size_t k = r.below(struck.size()); e.ch = (uint8_t)struck[k].first; e.d1 = (uint8_t)struck[k].second; }   // same key again
                    ok = tags.take(((uint64_t)0x90 << 32) | ((uint64_t)e.ch << 16) | ((uint64_t)e.d1 << 8) | e.d2);
                    if(ok) { sounding.push_back(std::make_pair((int)e.ch, (int)e.d1)); struck.push_back(sounding.back()); if(r.chance(0.25)) zeroLenOff = (int)sounding.size() - 1; }
                    break;
                case 1: // note off (of a sounding note when possible)
                {
                    if(!sounding.empty() && (zeroLenOff >= 0 || r.chance(0.9)))
                    {
                        size_t k = zeroLenOff >= 0 && (size_t)zeroLenOff < sounding.size() ? (size_t)zeroLenOff : r.below(sounding.size()); e.ch = (uint8_t)sounding[k].first; e.d1 = (uint8_t)sounding[k].second;
                        e.status = 0x80; e.d2 = (uint8_t)r.range(0, 127);
                        ok = tags.take(((uint64_t)0x80 << 32) | ((uint64_t)e.ch << 16) | ((uint64_t)e.d1 << 8) | e.d2);
                        if(ok) sounding.erase(sounding.begin() + (long)k);
                    }
                    else
                    {
                        e.status = 0x80; e.ch = (uint8_t)ch; e.d1 = (uint8_t)r.range(0, 127); e.d2 = (uint8_t)r.range(0, 127);
                        ok = tags.take(((uint64_t)0x80 << 32) | ((uint64_t)e.ch << 16) | ((uint64_t)e.d1 << 8) | e.d2);
                    }
                    break;
                }
                case 2: // controller
                    e.status = 0xB0; e.ch = (uint8_t)ch;
                    if(o.controllerRich) e.d1 = (uint8_t)r.pick<int>({ 0, 32, 7, 10, 11, 64, 66, 67, 100, 101, 6, 38, 98, 99, 1, 74 });
                    else e.d1 = (uint8_t)safeCtrls[r.below(sizeof safeCtrls / sizeof safeCtrls[0])];
                    e.d2 = (uint8_t)r.below(128);
                    if((e.d1 == 100 || e.d1 == 101) && o.controllerRich && r.chance(0.7)) e.d2 = 0;
                    ok = tags.take(((uint64_t)0xB0 << 32) | ((uint64_t)e.ch << 16) | ((uint64_t)e.d1 << 8) | e.d2);
                    if(!ok) ch = (int)r.below(16);
                    break;
                case 3: // program
                    e.status = 0xC0; e.ch = (uint8_t)ch; e.d1 = (uint8_t)r.below(128);
                    ok = tags.take(((uint64_t)0xC0 << 32) | ((uint64_t)e.ch << 16) | ((uint64_t)e.d1 << 8));
                    if(!ok) ch = (int)r.below(16);
                    break;
                case 4: // pitch bend
                    e.status = 0xE0; e.ch = (uint8_t)ch; e.d1 = (uint8_t)r.below(128); e.d2 = (uint8_t)r.below(128);
                    ok = tags.take(((uint64_t)0xE0 << 32) | ((uint64_t)e.ch << 16) | ((uint64_t)e.d1 << 8) | e.d2);
                    break;
                case 5: // channel aftertouch
                    e.status = 0xD0; e.ch = (uint8_t)ch; e.d1 = (uint8_t)r.below(128);
                    ok = tags.take(((uint64_t)0xD0 << 32) | ((uint64_t)e.ch << 16) | ((uint64_t)e.d1 << 8));
                    if(!ok) ch = (int)r.below(16);
                    break;
                case 6: // poly aftertouch
                    e.status = 0xA0; e.ch = (uint8_t)ch; e.d1 = (uint8_t)r.below(128); e.d2 = (uint8_t)r.below(128);
                    ok = tags.take(((uint64_t)0xA0 << 32) | ((uint64_t)e.ch << 16) | ((uint64_t)e.d1 << 8) | e.d2);
                    break;
                case 7: // sysex (unrecognised manufacturer so it has no effect; unique payload)
                {
                    e.status = r.chance(0.8) ? 0xF0 : 0xF7;
                    int n = (int)r.range(1, 12);
                    e.data.push_back(0x7D); // non-commercial manufacturer id
                    e.data.push_back((uint8_t)(e.id & 0x7F)); e.data.push_back((uint8_t)((e.id >> 7) & 0x7F));
                    for(int k = 0; k < n; ++k) e.data.push_back((uint8_t)r.below(128));
                    e.data.push_back(0xF7);
                    ok = true;
                    break;
                }
                case 8: // meta: text-ish types, time signature, key signature, sequencer specific
                {
                    e.status = 0xFF;
                    e.metaType = (uint8_t)r.pick<int>({ 0x01, 0x02, 0x03, 0x04, 0x05, 0x06, 0x07, 0x20, 0x58, 0x59, 0x7F, 0x54 });
                    char buf[40]; snprintf(buf, sizeof buf, "m%d-%u", e.id, (unsigned)r.below(1000));
                    e.data.assign(buf, buf + strlen(buf));
                    ok = true;
                    break;
                }
                case 9: // tempo (track 0 only)
                {
                    e.status = 0xFF; e.metaType = 0x51;
                    uint32_t us = (uint32_t)r.pick<int>({ 250000, 300000, 400000, 500000, 600000, 750000, 1000000, 120000 }) + (uint32_t)r.below(997);
                    e.data.push_back((uint8_t)(us >> 16)); e.data.push_back((uint8_t)(us >> 8)); e.data.push_back((uint8_t)us);
                    ok = tags.take(((uint64_t)0x51 << 32) | us);
                    break;
                }
                }
            }
            if(kind == 1) zeroLenOff = -1;
            if(ok) t.ev.push_back(e);
        }
        // end of track
        t.hasEOT = true; t.eotTick = tick;
        if(o.eotVariants)
        {
            int v = (int)r.weighted({ 5, 4, 1, 1 });
            if(v == 0) t.eotTick = tick;                                   // EOT with company (delta 0)
            else if(v == 1) t.eotTick = tick + (uint32_t)r.range(1, maxStep * 2); // EOT alone at its tick
            else if(v == 2) t.hasEOT = false;                              // missing EOT
            else { t.eotTick = tick; int n = (int)r.range(1, 6); for(int k = 0; k < n; ++k) t.trailing.push_back((uint8_t)r.below(256)); } // junk after EOT
        }
    }
    return s;
}

// Stock songs for checks that only need "a valid file" (C03, C18, C14): kind 0 plain SMF, 1 SMF with loop
// markers, 2 RMI-wrapped, 3 GMF-style
// Binds tracks to MIDI devices/ports: every chosen track names its own device at its start (meta FF 09; names are pairwise
// distinct so the meta events keep unique tags), some switch to a second one halfway. Channel events of a track then go to
// channel + 16 x (index of its device in order of first use).
static inline void addDeviceMetas(Song &s, Rng &r)
{
    for(size_t tk = 0; tk < s.tracks.size(); ++tk)
    {
        STrack &t = s.tracks[tk]; if(t.ev.empty() || !r.chance(0.8)) continue;
        SEvent e; e.status = 0xFF; e.metaType = 0x09; e.tick = 0; char nm[24]; snprintf(nm, sizeof nm, "dev%zu", tk); e.data.assign(nm, nm + strlen(nm)); e.id = 100000 + (int)tk * 2;
        t.ev.insert(t.ev.begin(), e);
        if(t.ev.size() > 6 && r.chance(0.4)) { size_t at = t.ev.size() / 2; SEvent f = e; f.tick = t.ev[at].tick; snprintf(nm, sizeof nm, "dev%zub", tk); f.data.assign(nm, nm + strlen(nm)); f.id = e.id + 1; t.ev.insert(t.ev.begin() + (long)at, f); }
    }
}

static inline std::vector<uint8_t> stockSong(uint64_t seed, int kind, bool smallAlphabet = false)
{
    Rng r(mix64(seed, 0x50A6));
    SongOpts o; o.maxSeconds = 6.0; o.maxEventsPerTrack = 40; o.eotVariants = (kind != 1); o.smallAlphabet = smallAlphabet;
    Song s = genSong(r, o);
    if(kind == 1 && !s.tracks.empty() && s.tracks[0].ev.size() >= 2)
    {
        // loopStart / loopEnd markers
        STrack &t = s.tracks[0];
        SEvent a; a.status = 0xFF; a.metaType = 0x06; const char *ls = "loopStart"; a.data.assign(ls, ls + 9);
        SEvent b = a; const char *le = "loopEnd"; b.data.assign(le, le + 7);
        size_t i1 = t.ev.size() / 3, i2 = t.ev.size() - 1;
        a.tick = t.ev[i1].tick; b.tick = t.ev[i2].tick;
        t.ev.insert(t.ev.begin() + (long)i2, b);
        t.ev.insert(t.ev.begin() + (long)i1, a);
    }
    std::vector<uint8_t> smf = writeSmf(s, r.chance(0.5));
    if(kind == 2) return wrapRmi(smf);
    if(kind == 3)
    {
        // GMF: "GMF\x1" + 3 bytes, then raw track data of track 0 (no EOT needed)
        std::vector<uint8_t> o2; const char *g = "GMF\x01"; o2.insert(o2.end(), g, g + 4); o2.push_back(0); o2.push_back(0); o2.push_back(0);
        STrack t = s.tracks[0]; t.hasEOT = false; t.trailing.clear();
        std::vector<uint8_t> td = writeTrack(t, false);
        o2.insert(o2.end(), td.begin(), td.end());
        while(o2.size() < 14) o2.push_back(0);
        return o2;
    }
    return smf;
}

// SysEx generator: the recognised messages (correct or corrupted) and random strings
static inline std::vector<uint8_t> genSysEx(Rng &r)
{
    std::vector<uint8_t> m;
    int k = (int)r.below(8);
    uint8_t dev = (uint8_t)(r.chance(0.5) ? 0x7F : r.below(16));
    // the shortest framed strings: F0 F7, F0 <manufacturer> F7, F0 <manufacturer> <device> F7 (every header field of a
    // longer message is missing or is the terminator itself)
    if(r.chance(0.08))
    {
        uint8_t man = (uint8_t)r.pick<int>({ 0x41, 0x43, 0x7E, 0x7F, 0x7D });
        switch(r.below(3)) { case 0: m = { 0xF0, 0xF7 }; break; case 1: m = { 0xF0, man, 0xF7 }; break; default: m = { 0xF0, man, (uint8_t)(man == 0x41 || man == 0x43 ? (0x10 | (dev & 15)) : dev), 0xF7 }; break; }
        return m;
    }
    switch(k)
    {
    case 0: m = { 0xF0, 0x7E, dev, 0x09, 0x01, 0xF7 }; break;
    case 1: m = { 0xF0, 0x7E, dev, 0x09, 0x02, 0xF7 }; break;
    case 2: m = { 0xF0, 0x7F, dev, 0x04, 0x01, (uint8_t)r.below(128), (uint8_t)r.below(128), 0xF7 }; break;
    case 3: { uint8_t d = (uint8_t)(0x10 | (dev & 0x0F)); m = { 0xF0, 0x41, d, 0x42, 0x12, 0x40, 0x00, 0x7F, 0x00, 0x41, 0xF7 }; break; }
    case 4: { uint8_t d = (uint8_t)(0x10 | (dev & 0x0F)); uint8_t c = (uint8_t)r.below(16), v = (uint8_t)r.below(3);
              uint8_t sum = (uint8_t)((128 - ((0x40 + (0x10 | c) + 0x15 + v) & 127)) & 127);
              m = { 0xF0, 0x41, d, 0x42, 0x12, 0x40, (uint8_t)(0x10 | c), 0x15, v, sum, 0xF7 }; break; }
    case 5: { uint8_t d = (uint8_t)(0x10 | (dev & 0x0F)); m = { 0xF0, 0x43, d, 0x4C, 0x00, 0x00, 0x7E, 0x00, 0xF7 }; break; }
    default: { size_t n = (size_t)r.below(20); for(size_t i = 0; i < n; ++i) m.push_back((uint8_t)r.below(256)); if(r.chance(0.5) && n >= 2) { m[0] = 0xF0; m[n - 1] = 0xF7; if(n > 2) m[1] = (uint8_t)r.pick<int>({ 0x41, 0x43, 0x7E, 0x7F }); } break; }
    }
    // corruption in transit
    if(!m.empty() && r.chance(0.4))
    {
        switch(r.below(4))
        {
        case 0: m[r.below(m.size())] ^= (uint8_t)(1u << r.below(8)); break;
        case 1: m.resize(r.below(m.size())); break;
        case 2: m.insert(m.begin() + (long)r.below(m.size()), (uint8_t)r.below(256)); break;
        default: m.erase(m.begin() + (long)r.below(m.size())); break;
        }
    }
    return m;
}

} // namespace sim
