// The exported API as plan operations: one executor shared by the checks, so that every
// property's workload drives the real library through the same public entry points.
#pragma once
#include "lib.hpp"
#include <cerrno>
#include "engine.hpp"
#include "simfs.hpp"
#include <climits>
#include <cstdarg>
#include <memory>

extern "C" void opn2_set_vgm_out_path(const char *path);

namespace sim {

enum ApiOp
{
    A_INIT = 0, A_CLOSE, A_SET_DEVICE_ID, A_SET_NUM_CHIPS, A_GETTERS, A_RESERVE_BANKS, A_GET_BANK, A_GET_BANK_ID,
    A_REMOVE_BANK, A_ITERATE_BANKS, A_GET_INSTRUMENT, A_SET_INSTRUMENT, A_SET_LFO_ENABLED, A_SET_LFO_FREQ,
    A_SET_CHIP_TYPE, A_SET_SCALE_MOD, A_SET_FULL_BRIGHT, A_SET_AUTO_ARP, A_SET_LOOP_ENABLED, A_SET_LOOP_COUNT,
    A_SET_LOOP_HOOKS_ONLY, A_SET_SOFT_PAN, A_SET_LOG_VOLUMES, A_SET_VOLUME_MODEL, A_SET_CHAN_ALLOC,
    A_OPEN_BANK_DATA, A_OPEN_BANK_FILE, A_SWITCH_EMULATOR, A_SET_RUN_AT_PCM_RATE, A_OPEN_DATA, A_OPEN_FILE,
    A_SELECT_SONG, A_RESET, A_SEEK, A_REWIND, A_SET_TEMPO, A_META, A_PLAY, A_PLAY_FORMAT, A_GENERATE,
    A_GENERATE_FORMAT, A_TICK_EVENTS, A_SET_TRACK_OPTIONS, A_SET_CHANNEL_ENABLED, A_PANIC, A_RT_RESET_STATE,
    A_NOTE_ON, A_NOTE_OFF, A_NOTE_AFTERTOUCH, A_CHAN_AFTERTOUCH, A_CONTROLLER, A_PATCH, A_PITCH_BEND,
    A_PITCH_BEND_ML, A_BANK_LSB, A_BANK_MSB, A_BANK_CHANGE, A_SYSEX, A_SET_HOOKS, A_DESCRIBE_CHANNELS,
    A_COUNT
};

static const char *apiOpName(int k)
{
    static const char *n[] = {
        "init", "close", "setDeviceIdentifier", "setNumChips", "getters", "reserveBanks", "getBank", "getBankId",
        "removeBank", "iterateBanks", "getInstrument", "setInstrument", "setLfoEnabled", "setLfoFrequency",
        "setChipType", "setScaleModulators", "setFullRangeBrightness", "setAutoArpeggio", "setLoopEnabled", "setLoopCount",
        "setLoopHooksOnly", "setSoftPanEnabled", "setLogarithmicVolumes", "setVolumeRangeModel", "setChannelAllocMode",
        "openBankData", "openBankFile", "switchEmulator", "setRunAtPcmRate", "openData", "openFile",
        "selectSongNum", "reset", "positionSeek", "positionRewind", "setTempo", "meta", "play", "playFormat", "generate",
        "generateFormat", "tickEvents", "setTrackOptions", "setChannelEnabled", "panic", "rt_resetState",
        "rt_noteOn", "rt_noteOff", "rt_noteAfterTouch", "rt_channelAfterTouch", "rt_controllerChange", "rt_patchChange", "rt_pitchBend",
        "rt_pitchBendML", "rt_bankChangeLSB", "rt_bankChangeMSB", "rt_bankChange", "rt_systemExclusive", "setHooks", "describeChannels" };
    return (k >= 0 && k < A_COUNT) ? n[k] : "?";
}

struct HookLog
{
    uint64_t rawEvents, notes, debugMsgs, loopStarts, loopEnds;
    Hasher h;
    HookLog() : rawEvents(0), notes(0), debugMsgs(0), loopStarts(0), loopEnds(0) {}
};

struct Inst
{
    OPN2_MIDIPlayer *dev;
    long rate;
    int emulator;
    bool bankLoaded, songLoaded;
    std::map<uint32_t, OPN2_Bank> handles;  // key = perc<<16 | msb<<8 | lsb  -> live handle
    HookLog hooks;
    double fedSeconds;
    Inst() : dev(NULL), rate(0), emulator(0), bankLoaded(false), songLoaded(false), fedSeconds(0) {}
};

struct ApiResult
{
    int64_t ret;        // integer return value of the main call (or 0)
    double dret;
    bool executed;      // false when skipped (no live instance etc.)
    int inst;           // index the op was applied to
    ApiResult() : ret(0), dret(0), executed(false), inst(-1) {}
};

static void hk_raw(void *ud, OPN2_UInt8 type, OPN2_UInt8 subtype, OPN2_UInt8 channel, const OPN2_UInt8 *data, size_t len)
{
    HookLog *h = (HookLog *)ud; ++h->rawEvents; h->h.add(type); h->h.add(subtype); h->h.add(channel); h->h.addBytes(data, len);
}
static void hk_note(void *ud, int opnchn, int note, int ins, int pressure, double bend)
{
    HookLog *h = (HookLog *)ud; ++h->notes; h->h.add((uint64_t)opnchn); h->h.add((uint64_t)note); h->h.add((uint64_t)ins); h->h.add((uint64_t)pressure); h->h.addDouble(bend);
}
static void hk_debug(void *ud, const char *fmt, ...)
{
    HookLog *h = (HookLog *)ud; ++h->debugMsgs;
    char buf[512]; va_list ap; va_start(ap, fmt); vsnprintf(buf, sizeof buf, fmt, ap); va_end(ap);
    h->h.add(strlen(buf));
}
static void hk_loopStart(void *ud) { HookLog *h = (HookLog *)ud; ++h->loopStarts; h->h.add(0x15); }
static void hk_loopEnd(void *ud) { HookLog *h = (HookLog *)ud; ++h->loopEnds; h->h.add(0x1E); }

struct World
{
    std::vector<std::unique_ptr<Inst> > inst;   // live instances only
    Run *run;
    size_t maxInst;
    std::vector<std::vector<uint8_t> > bankImages;  // indexable stock of valid bank images
    std::vector<std::vector<uint8_t> > songImages;  // stock of valid songs
    uint64_t audioFrames;
    bool observeGlobalErrorString;   // opn2_errorString() is process-wide by contract, not an instance output: C14 leaves it out
    World() : run(NULL), maxInst(3), audioFrames(0), observeGlobalErrorString(true) {}
    ~World() { closeAll(); }
    void closeAll()
    {
        for(size_t i = 0; i < inst.size(); ++i) if(inst[i]->dev) { opn2_close(inst[i]->dev); inst[i]->dev = NULL; }
        inst.clear();
    }
    Inst *pick(int sel) { if(inst.empty()) return NULL; return inst[(size_t)((unsigned)sel % inst.size())].get(); }
    int pickIndex(int sel) { if(inst.empty()) return -1; return (int)((unsigned)sel % inst.size()); }
};

static inline uint32_t bankKey(unsigned perc, unsigned msb, unsigned lsb) { return (perc << 16) | (msb << 8) | lsb; }

static inline OPN2_Instrument insFromSeed(uint64_t seed, bool extreme)
{
    Rng r(mix64(seed, 0x1125));
    OPN2_Instrument in; memset(&in, 0, sizeof in);
    in.version = 0;
    in.note_offset = (OPN2_SInt16)(extreme ? r.pick<int>({ -32768, -20000, -12162, -128, -36, 0, 36, 127, 12000, 12161, 12162, 20000, 32767 }) : (int)r.range(-24, 24));
    in.midi_velocity_offset = (OPN2_SInt8)(extreme ? r.pick<int>({ -128, -1, 0, 1, 127 }) : 0);
    in.percussion_key_number = (OPN2_UInt8)(extreme ? r.below(256) : r.pick<int>({ 0, 0, 35, 60 }));
    in.inst_flags = (OPN2_UInt8)(extreme ? r.below(256) : (r.chance(0.1) ? 2 : 0));
    in.fbalg = (OPN2_UInt8)r.below(256); in.lfosens = (OPN2_UInt8)r.below(256);
    for(int o = 0; o < 4; ++o)
    {
        in.operators[o].dtfm_30 = (OPN2_UInt8)r.below(256); in.operators[o].level_40 = (OPN2_UInt8)(extreme ? r.below(256) : r.below(128));
        in.operators[o].rsatk_50 = (OPN2_UInt8)r.below(256); in.operators[o].amdecay1_60 = (OPN2_UInt8)r.below(256);
        in.operators[o].decay2_70 = (OPN2_UInt8)r.below(256); in.operators[o].susrel_80 = (OPN2_UInt8)r.below(256);
        in.operators[o].ssgeg_90 = (OPN2_UInt8)r.below(256);
    }
    in.delay_on_ms = (OPN2_UInt16)r.pick<int>({ 0, 1, 100, 40000, 65535 });
    in.delay_off_ms = (OPN2_UInt16)r.pick<int>({ 0, 1, 100, 40000, 65535 });
    return in;
}

// exact-size heap block (so ASan sees the first byte past it)
struct ExactBuf
{
    uint8_t *p; size_t n;
    explicit ExactBuf(size_t n_) : p((uint8_t *)malloc(n_ ? n_ : 1)), n(n_) { memset(p, 0xA5, n_ ? n_ : 1); }
    ~ExactBuf() { free(p); }
};

// Executes one API op against the world. Every return value goes into the run log.
static ApiResult execApi(World &w, const Op &op)
{
    ApiResult res;
    Run &run = *w.run;
    Hasher &log = run.log;
    errno = 0;   // the library appends strerror(errno) to some error texts even when no libc call failed: start every call from a defined value
    if(op.kind == A_INIT)
    {
        if(w.inst.size() >= w.maxInst) return res;
        long rate = (long)op.a[0];
        OPN2_MIDIPlayer *d = opn2_init(rate);
        log.add(d ? 1 : 0);
        res.executed = true; res.ret = d ? 0 : -1;
        if(d)
        {
            std::unique_ptr<Inst> in(new Inst); in->dev = d; in->rate = rate; in->emulator = 0;
            w.inst.push_back(std::move(in)); res.inst = (int)w.inst.size() - 1;
        }
        return res;
    }
    int ii = w.pickIndex(op.inst);
    if(ii < 0) return res;
    Inst &in = *w.inst[(size_t)ii];
    OPN2_MIDIPlayer *d = in.dev;
    res.inst = ii; res.executed = true;
    const int64_t *a = op.a;
    switch(op.kind)
    {
    case A_CLOSE:
        opn2_close(d); in.dev = NULL; w.inst.erase(w.inst.begin() + ii); break;
    case A_SET_DEVICE_ID: res.ret = opn2_setDeviceIdentifier(d, (unsigned)a[0]); break;
    case A_SET_NUM_CHIPS: res.ret = opn2_setNumChips(d, (int)a[0]); break;
    case A_GETTERS:
    {
        log.add((uint64_t)opn2_getNumChips(d)); log.add((uint64_t)opn2_getNumChipsObtained(d));
        log.add((uint64_t)opn2_getLfoEnabled(d)); log.add((uint64_t)opn2_getLfoFrequency(d)); log.add((uint64_t)opn2_getChipType(d));
        log.add((uint64_t)opn2_getAutoArpeggio(d)); log.add((uint64_t)opn2_getVolumeRangeModel(d)); log.add((uint64_t)opn2_getChannelAllocMode(d));
        log.add(strlen(opn2_chipEmulatorName(d))); log.add(strlen(opn2_errorInfo(d))); { const char *ge = opn2_errorString(); (void)strlen(ge); }   /* called (memory safety), not logged: the string is process-wide by contract, so its content depends on what earlier runs of the same worker process did */
        log.add(strlen(opn2_linkedLibraryVersion())); log.add(opn2_linkedVersion()->major); log.add(strlen(opn2_emulatorName()));
        log.add((uint64_t)opn2_getSongsCount(d)); log.add((uint64_t)opn2_atEnd(d)); log.add((uint64_t)opn2_trackCount(d));
        log.addDouble(opn2_positionTell(d)); log.addDouble(opn2_totalTimeLength(d)); log.addDouble(opn2_loopStartTime(d)); log.addDouble(opn2_loopEndTime(d));
        break;
    }
    case A_RESERVE_BANKS: res.ret = opn2_reserveBanks(d, (unsigned)a[0]); break;
    case A_GET_BANK:
    {
        OPN2_BankId id; id.percussive = (OPN2_UInt8)a[0]; id.msb = (OPN2_UInt8)a[1]; id.lsb = (OPN2_UInt8)a[2];
        OPN2_Bank b; memset(&b, 0, sizeof b);
        res.ret = opn2_getBank(d, &id, (int)a[3], &b);
        if(res.ret == 0) in.handles[bankKey(id.percussive, id.msb, id.lsb)] = b;
        break;
    }
    case A_GET_BANK_ID: case A_REMOVE_BANK: case A_GET_INSTRUMENT: case A_SET_INSTRUMENT:
    {
        if(in.handles.empty()) { res.executed = false; break; }
        std::map<uint32_t, OPN2_Bank>::iterator it = in.handles.begin();
        std::advance(it, (long)((uint64_t)a[0] % in.handles.size()));
        if(op.kind == A_GET_BANK_ID)
        {
            OPN2_BankId id; memset(&id, 0, sizeof id);
            res.ret = opn2_getBankId(d, &it->second, &id);
            log.add(id.percussive); log.add(id.msb); log.add(id.lsb);
        }
        else if(op.kind == A_REMOVE_BANK)
        {
            res.ret = opn2_removeBank(d, &it->second);
            in.handles.erase(it);
        }
        else if(op.kind == A_GET_INSTRUMENT)
        {
            OPN2_Instrument ins; memset(&ins, 0, sizeof ins);
            res.ret = opn2_getInstrument(d, &it->second, (unsigned)a[1], &ins);
            if(res.ret == 0) log.addBytes(&ins.note_offset, sizeof ins - offsetof(OPN2_Instrument, note_offset));
        }
        else
        {
            OPN2_Instrument ins = insFromSeed((uint64_t)a[2], a[3] != 0);
            ins.version = (int)a[4];
            res.ret = opn2_setInstrument(d, &it->second, (unsigned)a[1], &ins);
        }
        break;
    }
    case A_ITERATE_BANKS:
    {
        OPN2_Bank b; memset(&b, 0, sizeof b);
        int n = 0;
        in.handles.clear();
        if(opn2_getFirstBank(d, &b) == 0)
        {
            do
            {
                OPN2_BankId id; opn2_getBankId(d, &b, &id);
                in.handles[bankKey(id.percussive, id.msb, id.lsb)] = b;
                log.add(bankKey(id.percussive, id.msb, id.lsb));
                if(++n > 40000) { run.fail("iterate-unbounded", "iterateBanks", "bank iteration did not end after 40000 steps"); break; }
            } while(opn2_getNextBank(d, &b) == 0);
        }
        res.ret = n;
        break;
    }
    case A_SET_LFO_ENABLED: opn2_setLfoEnabled(d, (int)a[0]); break;
    case A_SET_LFO_FREQ: opn2_setLfoFrequency(d, (int)a[0]); break;
    case A_SET_CHIP_TYPE: opn2_setChipType(d, (int)a[0]); in.handles.size(); break;
    case A_SET_SCALE_MOD: opn2_setScaleModulators(d, (int)a[0]); break;
    case A_SET_FULL_BRIGHT: opn2_setFullRangeBrightness(d, (int)a[0]); break;
    case A_SET_AUTO_ARP: opn2_setAutoArpeggio(d, (int)a[0]); break;
    case A_SET_LOOP_ENABLED: opn2_setLoopEnabled(d, (int)a[0]); break;
    case A_SET_LOOP_COUNT: opn2_setLoopCount(d, (int)a[0]); break;
    case A_SET_LOOP_HOOKS_ONLY: opn2_setLoopHooksOnly(d, (int)a[0]); break;
    case A_SET_SOFT_PAN: opn2_setSoftPanEnabled(d, (int)a[0]); break;
    case A_SET_LOG_VOLUMES: opn2_setLogarithmicVolumes(d, (int)a[0]); break;
    case A_SET_VOLUME_MODEL: opn2_setVolumeRangeModel(d, (int)a[0]); break;
    case A_SET_CHAN_ALLOC: opn2_setChannelAllocMode(d, (int)a[0]); break;
    case A_OPEN_BANK_DATA: case A_OPEN_BANK_FILE:
    {
        std::vector<uint8_t> img;
        if(!op.blob.empty()) img = op.blob;
        else if(!w.bankImages.empty()) img = w.bankImages[(size_t)((uint64_t)a[0] % w.bankImages.size())];
        applyStorageFaults(img, op.faults, &g_fs.fired);
        if(op.kind == A_OPEN_BANK_DATA)
        {
            ExactBuf eb(img.size()); if(!img.empty()) memcpy(eb.p, img.data(), img.size());
            res.ret = opn2_openBankData(d, eb.p, (long)img.size());
        }
        else
        {
            g_fs.files["bank.wopn"] = img;
            for(size_t f = 0; f < op.faults.size(); ++f) if(op.faults[f].kind < FS_TRUNCATE) g_fs.nextOpenFaults.push_back(op.faults[f]);
            res.ret = opn2_openBankFile(d, a[1] == 1 ? "missing.wopn" : "bank.wopn");
            g_fs.nextOpenFaults.clear();
        }
        if(res.ret == 0) { in.bankLoaded = true; in.handles.clear(); }
        break;
    }
    case A_SWITCH_EMULATOR: res.ret = opn2_switchEmulator(d, (int)a[0]); if(res.ret == 0) in.emulator = (int)a[0]; break;
    case A_SET_RUN_AT_PCM_RATE: res.ret = opn2_setRunAtPcmRate(d, (int)a[0]); break;
    case A_OPEN_DATA: case A_OPEN_FILE:
    {
        std::vector<uint8_t> img;
        if(!op.blob.empty()) img = op.blob;
        else if(!w.songImages.empty()) img = w.songImages[(size_t)((uint64_t)a[0] % w.songImages.size())];
        applyStorageFaults(img, op.faults, &g_fs.fired);
        if(op.kind == A_OPEN_DATA)
        {
            // the sequencer keeps no pointer into the caller's block after loading (it copies tracks),
            // so the block is released right after the call: a retained pointer would be a use-after-free
            ExactBuf eb(img.size()); if(!img.empty()) memcpy(eb.p, img.data(), img.size());
            res.ret = opn2_openData(d, eb.p, (unsigned long)img.size());
        }
        else
        {
            g_fs.files["song.mid"] = img;
            for(size_t f = 0; f < op.faults.size(); ++f) if(op.faults[f].kind < FS_TRUNCATE) g_fs.nextOpenFaults.push_back(op.faults[f]);
            res.ret = opn2_openFile(d, a[1] == 1 ? "missing.mid" : "song.mid");
            g_fs.nextOpenFaults.clear();
        }
        if(res.ret == 0) in.songLoaded = true;
        break;
    }
    case A_SELECT_SONG: opn2_selectSongNum(d, (int)a[0]); break;
    case A_RESET: opn2_reset(d); break;
    case A_SEEK: opn2_positionSeek(d, op.d); break;
    case A_REWIND: opn2_positionRewind(d); break;
    case A_SET_TEMPO: opn2_setTempo(d, op.d); break;
    case A_META:
    {
        log.add(strlen(opn2_metaMusicTitle(d))); log.add(strlen(opn2_metaMusicCopyright(d)));
        size_t n = opn2_metaTrackTitleCount(d); log.add(n);
        log.add(strlen(opn2_metaTrackTitle(d, (size_t)a[0])));
        if(n) log.add(strlen(opn2_metaTrackTitle(d, n - 1)));
        size_t m = opn2_metaMarkerCount(d); log.add(m);
        Opn2_MarkerEntry me = opn2_metaMarker(d, (size_t)a[1]); log.add(strlen(me.label)); log.addDouble(me.pos_time); log.add(me.pos_ticks);
        if(m) { me = opn2_metaMarker(d, m - 1); log.add(strlen(me.label)); }
        break;
    }
    case A_PLAY: case A_GENERATE:
    {
        int n = (int)a[0];
        size_t cnt = n > 0 ? (size_t)n : 0;
        ExactBuf eb(cnt * sizeof(short));
        res.ret = op.kind == A_PLAY ? opn2_play(d, n, (short *)eb.p) : opn2_generate(d, n, (short *)eb.p);
        if(res.ret > 0) { log.addBytes(eb.p, (size_t)res.ret * sizeof(short)); w.audioFrames += (uint64_t)res.ret / 2; run.simSeconds += (double)(res.ret / 2) / (double)(in.rate > 0 ? in.rate : 1); }
        break;
    }
    case A_PLAY_FORMAT: case A_GENERATE_FORMAT:
    {
        int n = (int)a[0];
        OPNMIDI_AudioFormat fmt; fmt.type = (OPNMIDI_SampleType)a[1]; fmt.containerSize = (unsigned)a[2]; fmt.sampleOffset = (unsigned)a[3];
        size_t frames = n > 0 ? (size_t)n / 2 : 0;
        // widest store the library may do for this container (it writes `containerSize` bytes per sample,
        // except that S16/U16 in a 4-byte container and the float types use their natural width)
        size_t width = fmt.containerSize;
        if(fmt.type == OPNMIDI_SampleType_F32 && width < 4) width = 4;
        if(fmt.type == OPNMIDI_SampleType_F64 && width < 8) width = 8;
        if(width == 0 || width > 8) width = 8;
        bool planar = a[4] != 0;
        size_t span = frames ? (frames - 1) * (size_t)fmt.sampleOffset + width : 0;
        if(planar)
        {
            ExactBuf l(span), r(span);
            res.ret = op.kind == A_PLAY_FORMAT ? opn2_playFormat(d, n, l.p, r.p, &fmt) : opn2_generateFormat(d, n, l.p, r.p, &fmt);
            if(res.ret > 0) { log.addBytes(l.p, l.n); log.addBytes(r.p, r.n); }
        }
        else
        {
            ExactBuf b(span ? span + width : 0);
            res.ret = op.kind == A_PLAY_FORMAT ? opn2_playFormat(d, n, b.p, b.p + width, &fmt) : opn2_generateFormat(d, n, b.p, b.p + width, &fmt);
            if(res.ret > 0) log.addBytes(b.p, b.n);
        }
        if(res.ret > 0) { w.audioFrames += (uint64_t)res.ret / 2; run.simSeconds += (double)(res.ret / 2) / (double)(in.rate > 0 ? in.rate : 1); }
        break;
    }
    case A_TICK_EVENTS:
    {
        double g = a[0] == 0 ? 0.0 : (a[0] == 1 ? 1e-6 : (a[0] == 2 ? 1.0 / (double)(in.rate > 0 ? in.rate : 44100) : 0.1));
        res.dret = opn2_tickEvents(d, op.d, g);
        log.addDouble(res.dret);
        if(op.d > 0 && op.d < 1e6) { in.fedSeconds += op.d; run.simSeconds += op.d; }
        break;
    }
    case A_SET_TRACK_OPTIONS: res.ret = opn2_setTrackOptions(d, (size_t)a[0], (unsigned)a[1]); break;
    case A_SET_CHANNEL_ENABLED: res.ret = opn2_setChannelEnabled(d, (size_t)a[0], (int)a[1]); break;
    case A_PANIC: opn2_panic(d); break;
    case A_RT_RESET_STATE: opn2_rt_resetState(d); break;
    case A_NOTE_ON: res.ret = opn2_rt_noteOn(d, (OPN2_UInt8)a[0], (OPN2_UInt8)a[1], (OPN2_UInt8)a[2]); break;
    case A_NOTE_OFF: opn2_rt_noteOff(d, (OPN2_UInt8)a[0], (OPN2_UInt8)a[1]); break;
    case A_NOTE_AFTERTOUCH: opn2_rt_noteAfterTouch(d, (OPN2_UInt8)a[0], (OPN2_UInt8)a[1], (OPN2_UInt8)a[2]); break;
    case A_CHAN_AFTERTOUCH: opn2_rt_channelAfterTouch(d, (OPN2_UInt8)a[0], (OPN2_UInt8)a[1]); break;
    case A_CONTROLLER: opn2_rt_controllerChange(d, (OPN2_UInt8)a[0], (OPN2_UInt8)a[1], (OPN2_UInt8)a[2]); break;
    case A_PATCH: opn2_rt_patchChange(d, (OPN2_UInt8)a[0], (OPN2_UInt8)a[1]); break;
    case A_PITCH_BEND: opn2_rt_pitchBend(d, (OPN2_UInt8)a[0], (OPN2_UInt16)a[1]); break;
    case A_PITCH_BEND_ML: opn2_rt_pitchBendML(d, (OPN2_UInt8)a[0], (OPN2_UInt8)a[1], (OPN2_UInt8)a[2]); break;
    case A_BANK_LSB: opn2_rt_bankChangeLSB(d, (OPN2_UInt8)a[0], (OPN2_UInt8)a[1]); break;
    case A_BANK_MSB: opn2_rt_bankChangeMSB(d, (OPN2_UInt8)a[0], (OPN2_UInt8)a[1]); break;
    case A_BANK_CHANGE: opn2_rt_bankChange(d, (OPN2_UInt8)a[0], (OPN2_SInt16)a[1]); break;
    case A_SYSEX:
    {
        ExactBuf eb(op.blob.size()); if(!op.blob.empty()) memcpy(eb.p, op.blob.data(), op.blob.size());
        res.ret = opn2_rt_systemExclusive(d, eb.p, op.blob.size());
        break;
    }
    case A_SET_HOOKS:
    {
        unsigned m = (unsigned)a[0];
        opn2_setRawEventHook(d, (m & 1) ? hk_raw : NULL, &in.hooks);
        opn2_setNoteHook(d, (m & 2) ? hk_note : NULL, &in.hooks);
        opn2_setDebugMessageHook(d, (m & 4) ? hk_debug : NULL, &in.hooks);
        opn2_setLoopStartHook(d, (m & 8) ? hk_loopStart : NULL, &in.hooks);
        opn2_setLoopEndHook(d, (m & 16) ? hk_loopEnd : NULL, &in.hooks);
        break;
    }
    case A_DESCRIBE_CHANNELS:
    {
        size_t n = (size_t)a[0];
        ExactBuf t(n), at(n);
        res.ret = opn2_describeChannels(d, (char *)t.p, (char *)at.p, n);
        if(n) log.addBytes(t.p, strnlen((char *)t.p, n));
        break;
    }
    default: res.executed = false; break;
    }
    log.add((uint64_t)op.kind); log.add((uint64_t)res.ret);
    if(g_alloc.hugeRequest)
    {
        run.fail("allocation-not-proportional", apiOpName(op.kind), std::string(apiOpName(op.kind)) + " asked for one allocation of " + std::to_string(g_alloc.hugeRequest) + " bytes (budget " + std::to_string(g_alloc.budget) + ")");
        g_alloc.hugeRequest = 0;
    }
    return res;
}

// ---------------------------------------------------------------------------------------
// boundary-class argument generators
static inline int64_t clsU8(Rng &r) { return r.chance(0.5) ? (int64_t)r.pick<int>({ 0, 1, 15, 16, 17, 63, 64, 126, 127, 128, 129, 254, 255 }) : (int64_t)r.below(256); }
static inline int64_t clsU7(Rng &r) { return r.chance(0.3) ? (int64_t)r.pick<int>({ 0, 1, 63, 64, 126, 127 }) : (int64_t)r.below(128); }
static inline int64_t clsInt(Rng &r) { return r.chance(0.6) ? (int64_t)r.pick<int>({ INT_MIN, -2, -1, 0, 1, 2, 31, 32, 33, 99, 100, 101, 127, 128, 255, 256, 65535, INT_MAX }) : (int64_t)r.range(-4, 12); }
static inline int64_t clsSize(Rng &r) { return r.chance(0.7) ? (int64_t)r.pick<int>({ 0, 1, 2, 3, 4, 511, 512, 513, 1023, 1024, 1025, 1026, 2048, 4096 }) : (r.chance(0.9) ? (int64_t)r.below(3000) : (int64_t)r.pick<int>({ 70000, 20000 })); }
static inline double clsDouble(Rng &r) { return r.chance(0.6) ? r.pick<double>({ -1.0, 0.0, 1e-9, 1.0 / 44100, 0.01, 0.03, 0.5, 1.0, 5.0, 1e6 }) : r.real(0, 2.0); }
static const long kRates[] = { 8000, 11025, 22050, 44100, 48000, 53267, 55466, 96000, 192000 };
static inline long clsRate(Rng &r) { return kRates[r.below(9)]; }

} // namespace sim
