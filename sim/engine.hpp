// Deterministic-simulation driver shared by all property checks.
//
//   ./cNN quick|thorough            seeded search over plans (VERIF_SEED, VERIF_WORKERS)
//   ./cNN --replay <file>           re-execute one plan in a fresh child, report its class
//   ./cNN --show <runindex>         print the plan generated for (VERIF_SEED, index)
//
// One parent, N forked workers; each worker executes many runs in-process (no fork per run).
// A worker announces "R idx" before a run; if it dies (sanitizer exit 77, signal, watchdog 78)
// the parent regenerates the plan from (seed, idx), classifies the death from the worker's
// stderr capture, gates it (same plan twice => same class; fresh-process replay => same
// class), minimises it (ddmin over ops, then per-op shrinking) and writes the replay file.
#pragma once
#include "rng.hpp"
#include "plan.hpp"
#include <unistd.h>
#include <fcntl.h>
#include <poll.h>
#include <signal.h>
#include <errno.h>
#include <sys/wait.h>
#include <sys/time.h>
#include <sys/stat.h>
#include <sys/resource.h>
#include <time.h>
#include <set>
#include <algorithm>
#include <functional>

#ifndef VERIF_GEN_HASH
#define VERIF_GEN_HASH "unknown"
#endif
namespace sim {

// ---------------------------------------------------------------------------------------
struct Violation
{
    bool set;
    std::string tag, sig, detail;
    Violation() : set(false) {}
    std::string cls() const { return tag + "|" + sig; }
};

struct Run
{
    Hasher log;
    Violation v;
    std::map<std::string, uint64_t> counters;
    std::set<uint64_t> states;
    double simSeconds;
    bool minimising;   // true while a candidate is evaluated during shrinking/replay
    Run() : simSeconds(0), minimising(false) {}
    bool failed() const { return v.set; }
    // record the first violation only; returns false so callers can `return r.fail(...)`
    bool fail(const std::string &tag, const std::string &sig, const std::string &detail)
    {
        if(!v.set) { v.set = true; v.tag = tag; v.sig = sig; v.detail = detail; }
        return false;
    }
    void count(const char *name, uint64_t n = 1) { counters[name] += n; }
    void state(uint64_t h) { states.insert(h); }
};

class Check
{
public:
    virtual ~Check() {}
    virtual const char *id() = 0;
    virtual const char *opName(int kind) { (void)kind; return "op"; }
    virtual void generate(Rng &rng, Plan &plan, bool thorough) = 0;
    virtual void execute(const Plan &plan, Run &run) = 0;
    // simpler variants of one op, tried during minimisation
    virtual void shrinkOp(const Op &op, std::vector<Op> &out) { (void)op; (void)out; }
    // true for an oracle that may miss what it saw before (ThreadSanitizer keeps a bounded, randomly evicted access history per
    // memory cell): then only the event log has to repeat, and a violation class has to reproduce in some of several tries
    virtual bool verdictMayFlicker() { return false; }
    virtual int recheckEvery() { return 40; }   // every Nth run of a worker is executed twice in-process and compared
    virtual int quickRuns() { return 3000; }
    virtual int quickSeconds() { return 75; }       // hard cap for the quick tier
    virtual int thoroughSeconds() { return 600; }
    virtual int cpuBudgetSec() { return 20; }       // per-run CPU watchdog
    virtual const char *rule() { return ""; }
    virtual const char *technique() { return "deterministic simulation: seeded plans, reference-model oracle"; }
    virtual std::vector<std::string> assumptions() { return std::vector<std::string>(); }
    virtual std::vector<std::string> realComponents() { return std::vector<std::string>(); }
    virtual std::vector<std::string> stubComponents() { return std::vector<std::string>(); }
    virtual std::vector<std::string> requiredProbes() { return std::vector<std::string>(); }
    // extra JSON members (", \"k\": v") appended to coverage
    virtual std::string extraCoverageJson() { return ""; }
};

// ---------------------------------------------------------------------------------------
static std::string g_root = "/verif";
static thread_local volatile int g_curOpKindTL = -1;
static volatile int g_curOpKind = -1;
static volatile int g_curOpIndex = -1;
static bool g_threadedRun = false;   // simulated caller threads must not touch the process-wide markers
static Check *g_check = NULL;

static Run *g_curRun = NULL;
static std::vector<uint64_t> *g_trace = NULL;
static inline void noteOp(int index, int kind)
{
    if(g_threadedRun) { g_curOpKindTL = kind; return; }
    g_curOpIndex = index; g_curOpKind = kind;
    if(g_trace && g_curRun) g_trace->push_back(g_curRun->log.h);
}

static void safeWrite(int fd, const char *s) { size_t n = strlen(s); while(n) { ssize_t w = write(fd, s, n); if(w <= 0) break; s += w; n -= (size_t)w; } }

static void onTimeout(int)
{
    char buf[160];
    const char *nm = g_check ? g_check->opName(g_curOpKind) : "?";
    snprintf(buf, sizeof buf, "\nVERIF-TIMEOUT op=%s index=%d\n", nm, g_curOpIndex);
    safeWrite(2, buf);
    _exit(78);
}
static void onFatalSignal(int sig)
{
    char buf[160];
    const char *nm = g_check ? g_check->opName(g_curOpKind) : "?";
    snprintf(buf, sizeof buf, "\nVERIF-SIGNAL %d op=%s index=%d\n", sig, nm, g_curOpIndex);
    safeWrite(2, buf);
    _exit(77);
}
static void onTerminate()
{
    safeWrite(2, "\nVERIF-TERMINATE uncaught exception or std::terminate\n");
    // let the sanitizer print a stack if it handles abort
    abort();
}

static void armWatchdog(int cpuSec)
{
    struct itimerval it; memset(&it, 0, sizeof it);
    it.it_value.tv_sec = cpuSec;
    setitimer(ITIMER_VIRTUAL, &it, NULL);
    // wall-clock backstop (blocked in a syscall, etc.): 6x
    struct itimerval rt; memset(&rt, 0, sizeof rt);
    rt.it_value.tv_sec = cpuSec * 6;
    setitimer(ITIMER_REAL, &rt, NULL);
}
static void disarmWatchdog()
{
    struct itimerval it; memset(&it, 0, sizeof it);
    setitimer(ITIMER_VIRTUAL, &it, NULL);
    setitimer(ITIMER_REAL, &it, NULL);
}
static void installHandlers(bool sanitized)
{
    signal(SIGVTALRM, onTimeout);
    signal(SIGALRM, onTimeout);
    std::set_terminate(onTerminate);
    if(!sanitized)
    {
        signal(SIGSEGV, onFatalSignal); signal(SIGBUS, onFatalSignal);
        signal(SIGFPE, onFatalSignal);  signal(SIGILL, onFatalSignal);
        signal(SIGABRT, onFatalSignal);
    }
}

static double nowSec()
{
    struct timespec ts; clock_gettime(CLOCK_MONOTONIC, &ts);
    return ts.tv_sec + ts.tv_nsec * 1e-9;
}

static uint64_t runSeed(uint64_t baseSeed, const char *prop, uint64_t idx)
{
    return mix64(mix64(baseSeed, hashStr(prop)), idx);
}

static void makePlan(Check &c, uint64_t baseSeed, uint64_t idx, bool thorough, Plan &p)
{
    p = Plan();
    p.property = c.id();
    p.seed = runSeed(baseSeed, c.id(), idx);
    p.index = idx;
    Rng rng(p.seed);
    c.generate(rng, p, thorough);
}

// ---------------------------------------------------------------------------------------
// classification of a dead child from its stderr capture
static std::string firstRepoFrame(const std::string &err)
{
    // lines like: "    #3 0x55.. in OPNMIDIplay::realTime_Controller(unsigned char, ...) /repo/src/opnmidi_midiplay.cpp:651:9"
    std::istringstream is(err);
    std::string line, firstAny, firstRepo;
    while(std::getline(is, line))
    {
        size_t p = line.find(" in ");
        size_t h = line.find('#');
        if(p == std::string::npos || h == std::string::npos || h > 8) continue;
        std::string rest = line.substr(p + 4);
        std::string fn = rest;
        size_t par = fn.find('(');
        if(par != std::string::npos) fn = fn.substr(0, par);
        else { size_t sp = fn.find(' '); if(sp != std::string::npos) fn = fn.substr(0, sp); }
        while(!fn.empty() && fn[fn.size() - 1] == ' ') fn.erase(fn.size() - 1);
        if(fn.compare(0, 6, "__asan") == 0 || fn.compare(0, 13, "__interceptor") == 0 || fn.compare(0, 11, "__sanitizer") == 0) continue;
        if(firstAny.empty()) firstAny = fn;
        if(rest.find("/repo/") != std::string::npos || rest.find("/src/") != std::string::npos) { firstRepo = fn; break; }
        if(line.find("SUMMARY") != std::string::npos) break;
    }
    return firstRepo.empty() ? firstAny : firstRepo;
}

static Violation classifyDeath(int status, const std::string &err)
{
    Violation v; v.set = true;
    size_t p;
    if((p = err.find("VERIF-TIMEOUT")) != std::string::npos)
    {
        v.tag = "hang";
        size_t e = err.find('\n', p);
        std::string line = err.substr(p, e == std::string::npos ? std::string::npos : e - p);
        size_t o = line.find("op=");
        std::string op = o == std::string::npos ? "?" : line.substr(o + 3);
        size_t sp = op.find(' '); if(sp != std::string::npos) op = op.substr(0, sp);
        v.sig = op; v.detail = line;
        return v;
    }
    if((p = err.find("ERROR: AddressSanitizer: ")) != std::string::npos)
    {
        size_t s = p + strlen("ERROR: AddressSanitizer: ");
        size_t e = err.find_first_of(" \n", s);
        v.tag = "asan:" + err.substr(s, e - s);
        if(err.compare(s, 25, "requested allocation size") == 0) v.tag = "asan:allocation-size-too-big";
        v.sig = firstRepoFrame(err.substr(p));
        size_t le = err.find('\n', p);
        v.detail = err.substr(p, le == std::string::npos ? 200 : std::min<size_t>(le - p, 300));
        return v;
    }
    if((p = err.find("runtime error: ")) != std::string::npos)
    {
        size_t le = err.find('\n', p);
        std::string msg = err.substr(p + 15, le == std::string::npos ? 200 : le - p - 15);
        // location prefix precedes "runtime error": "<file>:<line>:<col>: runtime error: ..."
        size_t ls = err.rfind('\n', p); ls = (ls == std::string::npos) ? 0 : ls + 1;
        std::string loc = err.substr(ls, p - ls);
        size_t sl = loc.rfind('/'); if(sl != std::string::npos) loc = loc.substr(sl + 1);
        size_t c1 = loc.find(':'); if(c1 != std::string::npos) loc = loc.substr(0, c1);
        v.tag = "ubsan:" + (msg.find("out of bounds") != std::string::npos ? std::string("index-out-of-bounds") : std::string("other"));
        std::string fr = firstRepoFrame(err.substr(p));
        v.sig = fr.empty() ? loc : fr;
        v.detail = loc + " " + msg;
        return v;
    }
    if((p = err.find("VERIF-TERMINATE")) != std::string::npos)
    {
        v.tag = "terminate"; v.sig = firstRepoFrame(err.substr(p)); v.detail = "uncaught exception / std::terminate";
        if(v.sig.empty()) v.sig = "unknown";
        return v;
    }
    if((p = err.find("VERIF-SIGNAL")) != std::string::npos)
    {
        size_t e = err.find('\n', p);
        std::string line = err.substr(p, e == std::string::npos ? std::string::npos : e - p);
        v.tag = "signal"; size_t o = line.find("op=");
        std::string op = o == std::string::npos ? "?" : line.substr(o + 3);
        size_t sp = op.find(' '); if(sp != std::string::npos) op = op.substr(0, sp);
        v.sig = op; v.detail = line;
        return v;
    }
    char buf[96];
    if(WIFSIGNALED(status)) snprintf(buf, sizeof buf, "killed by signal %d", WTERMSIG(status));
    else snprintf(buf, sizeof buf, "exit status %d", WEXITSTATUS(status));
    v.tag = "died"; v.sig = buf; v.detail = err.substr(0, 300);
    return v;
}

// ---------------------------------------------------------------------------------------
// evaluate one plan in a forked child; returns its violation (set=false when clean)
struct EvalResult { Violation v; uint64_t hash; bool harnessError; EvalResult() : hash(0), harnessError(false) {} };

static std::string tmpDir()
{
    std::string d = g_root + "/build/tmp";
    mkdir((g_root + "/build").c_str(), 0755);
    mkdir(d.c_str(), 0755);
    return d;
}

static EvalResult evalInChild(Check &c, const Plan &plan, int cpuSec, bool sanitized)
{
    EvalResult res;
    int pfd[2];
    if(pipe(pfd) != 0) { res.harnessError = true; return res; }
    char errPath[256];
    snprintf(errPath, sizeof errPath, "%s/%s.eval.%d.err", tmpDir().c_str(), c.id(), (int)getpid());
    fflush(stdout); fflush(stderr);
    pid_t pid = fork();
    if(pid < 0) { res.harnessError = true; close(pfd[0]); close(pfd[1]); return res; }
    if(pid == 0)
    {
        close(pfd[0]);
        int efd = open(errPath, O_WRONLY | O_CREAT | O_TRUNC, 0644);
        if(efd >= 0) { dup2(efd, 2); close(efd); }
        int nfd = open("/dev/null", O_WRONLY); if(nfd >= 0) { dup2(nfd, 1); close(nfd); }
        installHandlers(sanitized);
        armWatchdog(cpuSec);
        Run run; run.minimising = true;
        c.execute(plan, run);
        disarmWatchdog();
        std::ostringstream os;
        if(run.v.set) os << "V " << run.v.tag << "\x1f" << run.v.sig << "\x1f" << run.v.detail << "\n";
        else os << "D " << run.log.h << "\n";
        std::string s = os.str();
        safeWrite(pfd[1], s.c_str());
        close(pfd[1]);
        _exit(0);
    }
    close(pfd[1]);
    std::string out; char buf[4096]; ssize_t n;
    while((n = read(pfd[0], buf, sizeof buf)) > 0) out.append(buf, (size_t)n);
    close(pfd[0]);
    int status = 0; waitpid(pid, &status, 0);
    if(out.size() > 2 && out[0] == 'V')
    {
        std::string body = out.substr(2); if(!body.empty() && body[body.size() - 1] == '\n') body.erase(body.size() - 1);
        size_t a = body.find('\x1f'), b = body.find('\x1f', a + 1);
        res.v.set = true; res.v.tag = body.substr(0, a); res.v.sig = body.substr(a + 1, b - a - 1); res.v.detail = body.substr(b + 1);
    }
    else if(out.size() > 2 && out[0] == 'D' && WIFEXITED(status) && WEXITSTATUS(status) == 0)
    {
        res.hash = strtoull(out.c_str() + 2, NULL, 10);
    }
    else
    {
        std::string err; readFile(errPath, err);
        res.v = classifyDeath(status, err);
    }
    unlink(errPath);
    return res;
}

// ---------------------------------------------------------------------------------------
struct KnownFinding { std::string property, status, tag, sig, what; };

static std::string jsonField(const std::string &line, const char *key)
{
    std::string k = std::string("\"") + key + "\"";
    size_t p = line.find(k); if(p == std::string::npos) return "";
    p = line.find(':', p); if(p == std::string::npos) return "";
    p = line.find('"', p); if(p == std::string::npos) return "";
    std::string out;
    for(size_t i = p + 1; i < line.size(); ++i)
    {
        if(line[i] == '\\' && i + 1 < line.size()) { out.push_back(line[++i]); continue; }
        if(line[i] == '"') break;
        out.push_back(line[i]);
    }
    return out;
}

static std::vector<KnownFinding> loadKnownFindings(const char *prop)
{
    std::vector<KnownFinding> v;
    std::string text;
    if(!readFile(g_root + "/known_findings.jsonl", text)) return v;
    std::istringstream is(text); std::string line;
    while(std::getline(is, line))
    {
        if(line.find('{') == std::string::npos) continue;
        KnownFinding k;
        k.property = jsonField(line, "property"); k.status = jsonField(line, "status");
        k.tag = jsonField(line, "tag"); k.sig = jsonField(line, "sig"); k.what = jsonField(line, "what");
        if(k.property == prop) v.push_back(k);
    }
    return v;
}

static const KnownFinding *matchKnown(const std::vector<KnownFinding> &k, const Violation &v)
{
    for(size_t i = 0; i < k.size(); ++i)
        if(k[i].status == "known" && k[i].tag == v.tag && (k[i].sig == v.sig || (k[i].sig.size() > 1 && k[i].sig[k[i].sig.size() - 1] == '*' && v.sig.compare(0, k[i].sig.size() - 1, k[i].sig, 0, k[i].sig.size() - 1) == 0)))
            return &k[i];
    return NULL;
}

static std::string jsonEscape(const std::string &s)
{
    std::string o;
    for(size_t i = 0; i < s.size(); ++i)
    {
        unsigned char ch = (unsigned char)s[i];
        if(ch == '"' || ch == '\\') { o.push_back('\\'); o.push_back((char)ch); }
        else if(ch == '\n') o += "\\n";
        else if(ch == '\t') o += "\\t";
        else if(ch < 0x20 || ch >= 0x7f) { char b[8]; snprintf(b, sizeof b, "\\u%04x", ch); o += b; }
        else o.push_back((char)ch);
    }
    return o;
}

// ---------------------------------------------------------------------------------------
// minimisation: ddmin over ops, then per-op shrinking; accepts only the same class
struct Minimiser
{
    Check &c; int cpuSec; bool sanitized; std::string cls; int evals; int maxEvals; double deadline;
    Minimiser(Check &c_, int cpu, bool san, const std::string &cl) : c(c_), cpuSec(cpu), sanitized(san), cls(cl), evals(0), maxEvals(600), deadline(nowSec() + 90.0) {}
    bool reproduces(const Plan &p)
    {
        if(evals >= maxEvals || nowSec() > deadline) { maxEvals = evals; return false; }
        ++evals;
        for(int tries = c.verdictMayFlicker() ? 3 : 1; tries > 0; --tries) { EvalResult r = evalInChild(c, p, cpuSec, sanitized); if(r.v.set && r.v.cls() == cls) return true; }
        return false;
    }
    void run(Plan &plan)
    {
        // ddmin on the op list
        size_t n = 2;
        while(plan.ops.size() >= 2 && evals < maxEvals)
        {
            size_t len = plan.ops.size();
            if(n > len) n = len;
            size_t chunk = (len + n - 1) / n;
            bool reduced = false;
            for(size_t start = 0; start < len; start += chunk)
            {
                Plan cand = plan;
                size_t end = std::min(len, start + chunk);
                cand.ops.erase(cand.ops.begin() + (long)start, cand.ops.begin() + (long)end);
                if(cand.ops.empty()) continue;
                if(reproduces(cand)) { plan = cand; n = n > 2 ? n - 1 : 2; reduced = true; break; }
            }
            if(!reduced)
            {
                if(n >= len) break;
                n = std::min(len, n * 2);
            }
        }
        if(plan.ops.size() == 1 && evals < maxEvals) { /* nothing */ }
        // per-op shrinking
        bool changed = true; int rounds = 0;
        while(changed && rounds++ < 6 && evals < maxEvals)
        {
            changed = false;
            for(size_t i = 0; i < plan.ops.size() && evals < maxEvals; ++i)
            {
                std::vector<Op> cands;
                // generic: drop faults one by one, halve blobs
                const Op &o = plan.ops[i];
                for(size_t f = 0; f < o.faults.size(); ++f) { Op x = o; x.faults.erase(x.faults.begin() + (long)f); cands.push_back(x); }
                c.shrinkOp(o, cands);
                for(size_t k = 0; k < cands.size() && evals < maxEvals; ++k)
                {
                    Plan cand = plan; cand.ops[i] = cands[k];
                    if(reproduces(cand)) { plan = cand; changed = true; break; }
                }
            }
        }
    }
};

// ---------------------------------------------------------------------------------------
struct WorkerSlot { pid_t pid; int fd; std::string buf; int64_t curIdx; bool curDone; uint64_t nextIdx; std::string errPath; bool active; };

struct ClassInfo { Violation v; uint64_t firstIdx; uint64_t count; std::string replay; bool known; std::string knownWhat; size_t minOps; size_t origOps; };

static bool g_sanitized =
#if defined(__has_feature)
#  if __has_feature(address_sanitizer) || __has_feature(thread_sanitizer)
    true;
#  else
    false;
#  endif
#else
    false;
#endif

static void workerLoop(Check &c, int wfd, uint64_t baseSeed, bool thorough, uint64_t startIdx, uint64_t stride,
                       uint64_t totalRuns, double deadline, const std::string &errPath)
{
    int efd = open(errPath.c_str(), O_WRONLY | O_CREAT | O_TRUNC, 0644);
    if(efd >= 0) { dup2(efd, 2); close(efd); }
    installHandlers(g_sanitized);
    std::map<std::string, uint64_t> counters;
    std::set<uint64_t> seen; std::vector<uint64_t> fresh;
    double simSec = 0; uint64_t ops = 0; uint64_t sinceFlush = 0;
    char line[512];
    for(uint64_t idx = startIdx; (totalRuns == 0 || idx < totalRuns) && nowSec() < deadline; idx += stride)
    {
        Plan plan; makePlan(c, baseSeed, idx, thorough, plan);
        snprintf(line, sizeof line, "R %llu\n", (unsigned long long)idx); safeWrite(wfd, line);
        if(ftruncate(2, 0) == 0) lseek(2, 0, SEEK_SET);
        armWatchdog(c.cpuBudgetSec());
        Run run; c.execute(plan, run);
        disarmWatchdog();
        noteOp(-1, -1);
        ops += plan.ops.size(); simSec += run.simSeconds;
        for(std::map<std::string, uint64_t>::iterator it = run.counters.begin(); it != run.counters.end(); ++it) counters[it->first] += it->second;
        for(std::set<uint64_t>::iterator it = run.states.begin(); it != run.states.end(); ++it)
            if(seen.size() < 2000000 && seen.insert(*it).second) fresh.push_back(*it);
        // continuous determinism proof: re-execute every Nth run in-process and compare the log (and the violation class, if any)
        if((idx / stride) % (uint64_t)c.recheckEvery() == (uint64_t)c.recheckEvery() / 5)
        {
            armWatchdog(c.cpuBudgetSec());
            Run again; c.execute(plan, again);
            disarmWatchdog();
            bool same = again.log.h == run.log.h && (c.verdictMayFlicker() || (again.v.set == run.v.set && (!run.v.set || (again.v.tag == run.v.tag && again.v.sig == run.v.sig))));
            if(!same) { snprintf(line, sizeof line, "M %llu\n", (unsigned long long)idx); safeWrite(wfd, line); }
            else counters["_determinism_rechecks"] += 1;
        }
        if(run.v.set)
        {
            std::string s = "V " + std::to_string(idx) + " " + run.v.tag + "\x1f" + run.v.sig + "\x1f" + run.v.detail;
            for(size_t i = 0; i < s.size(); ++i) if(s[i] == '\n') s[i] = ' ';
            s += "\n"; safeWrite(wfd, s.c_str());
        }
        else
        {
            snprintf(line, sizeof line, "D %llu %llu\n", (unsigned long long)idx, (unsigned long long)run.log.h); safeWrite(wfd, line);
        }
        if(++sinceFlush >= 32)
        {
            sinceFlush = 0;
            std::ostringstream os;
            for(std::map<std::string, uint64_t>::iterator it = counters.begin(); it != counters.end(); ++it) os << "C " << it->first << " " << it->second << "\n";
            counters.clear();
            os << "C _ops " << ops << "\nT " << simSec << "\n"; ops = 0; simSec = 0;
            for(size_t i = 0; i < fresh.size(); ++i) os << "S " << fresh[i] << "\n";
            fresh.clear();
            std::string s = os.str(); safeWrite(wfd, s.c_str());
        }
    }
    std::ostringstream os;
    for(std::map<std::string, uint64_t>::iterator it = counters.begin(); it != counters.end(); ++it) os << "C " << it->first << " " << it->second << "\n";
    os << "C _ops " << ops << "\nT " << simSec << "\n";
    for(size_t i = 0; i < fresh.size(); ++i) os << "S " << fresh[i] << "\n";
    os << "E\n";
    std::string s = os.str(); safeWrite(wfd, s.c_str());
    close(wfd);
    _exit(0);
}

static int replayMode(Check &c, const char *path)
{
    std::string text; Plan plan;
    if(!readFile(path, text) || !planFromString(text, plan)) { fprintf(stderr, "cannot read plan %s\n", path); return 2; }
    {
        // plans of song-based checks carry seeds of generated songs/banks, not their bytes: say so when the generators have changed since
        size_t g = text.find("# generators "); if(g != std::string::npos) { std::string h = text.substr(g + 13, text.find('\n', g) - g - 13); if(h != VERIF_GEN_HASH) printf("NOTE: this plan was recorded with generator version %s, the harness now has %s: content derived from seeds inside the plan may differ\n", h.c_str(), VERIF_GEN_HASH); }
    }
    EvalResult r = evalInChild(c, plan, c.cpuBudgetSec(), g_sanitized);
    for(int tries = 0; c.verdictMayFlicker() && !r.v.set && !r.harnessError && tries < 3; ++tries) r = evalInChild(c, plan, c.cpuBudgetSec(), g_sanitized);
    if(r.harnessError) return 2;
    if(r.v.set)
    {
        printf("REPLAY class=%s|%s detail=%s\n", r.v.tag.c_str(), r.v.sig.c_str(), r.v.detail.c_str());
        std::vector<KnownFinding> known = loadKnownFindings(c.id());
        const KnownFinding *k = matchKnown(known, r.v);
        if(k) { printf("KNOWN-FINDING: property=%s %s\n", c.id(), k->what.c_str()); return 0; }
        printf("VIOLATION property=%s replay=%s\n", c.id(), path);
        return 1;
    }
    printf("REPLAY clean hash=%llu\n", (unsigned long long)r.hash);
    return 0;
}

static int driverMain(Check &c, int argc, char **argv)
{
    g_check = &c;
    {
        char self[4096]; ssize_t n = readlink("/proc/self/exe", self, sizeof self - 1);
        if(n > 0) { self[n] = 0; std::string s(self); size_t p = s.find("/build/"); if(p != std::string::npos) g_root = s.substr(0, p); }
        if(getenv("VERIF_ROOT")) g_root = getenv("VERIF_ROOT");
    }
    setvbuf(stdout, NULL, _IOLBF, 0);
    std::string mode = argc > 1 ? argv[1] : "quick";
    uint64_t baseSeed = 20260928ull;
    if(getenv("VERIF_SEED") && *getenv("VERIF_SEED")) baseSeed = strtoull(getenv("VERIF_SEED"), NULL, 10);
    if(mode == "--replay") { if(argc < 3) return 2; return replayMode(c, argv[2]); }
    bool thorough = (mode == "thorough");
    if(getenv("VERIF_TIER") && std::string(getenv("VERIF_TIER")) == "thorough" && mode != "quick") thorough = true;
    if(mode == "--show")
    {
        Plan p; makePlan(c, baseSeed, argc > 2 ? strtoull(argv[2], NULL, 10) : 0, argc > 3 && std::string(argv[3]) == "thorough", p);
        { std::string t = planToString(p, NULL); std::istringstream is(t); std::string ln; size_t oi = 0; while(std::getline(is, ln)) { if(ln.compare(0, 3, "op ") == 0 && oi < p.ops.size()) { size_t q = ln.find(" ? "); if(q != std::string::npos) ln.replace(q, 3, std::string(" ") + c.opName(p.ops[oi].kind) + " "); ++oi; } puts(ln.c_str()); } }
        return 0;
    }
    if(mode == "--one")
    {
        // run one index in-process (for gdb / valgrind)
        Plan p; makePlan(c, baseSeed, argc > 2 ? strtoull(argv[2], NULL, 10) : 0, false, p);
        Run run; c.execute(p, run);
        printf("%s hash=%llu\n", run.v.set ? (run.v.cls() + " " + run.v.detail).c_str() : "clean", (unsigned long long)run.log.h);
        return run.v.set ? 1 : 0;
    }
    if(mode == "--twice")
    {
        // execute a plan twice in this process and report the first op whose event-log prefix differs
        std::string text; Plan plan;
        if(argc < 3 || !readFile(argv[2], text) || !planFromString(text, plan)) return 2;
        if(argc > 3) { Plan warm; std::string t2; if(readFile(argv[3], t2) && planFromString(t2, warm)) { Run wr; c.execute(warm, wr); } }
        std::vector<uint64_t> t1, t2;
        { Run run; g_curRun = &run; g_trace = &t1; c.execute(plan, run); t1.push_back(run.log.h); }
        { Run run; g_curRun = &run; g_trace = &t2; c.execute(plan, run); t2.push_back(run.log.h); }
        g_trace = NULL; g_curRun = NULL;
        for(size_t i = 0; i < t1.size() && i < t2.size(); ++i)
            if(t1[i] != t2[i]) { printf("first difference before op %zu (%s); previous op %s\n", i, i < plan.ops.size() ? c.opName(plan.ops[i].kind) : "end", i ? c.opName(plan.ops[i - 1].kind) : "-"); return 1; }
        if(getenv("VERIF_TRACE_DUMP")) for(size_t i = 0; i < t1.size(); ++i) printf("mark %zu %llu %s\n", i, (unsigned long long)t1[i], i < plan.ops.size() ? opToString(plan.ops[i], NULL).c_str() : "end");
        printf("identical (%zu marks)\n", t1.size());
        return 0;
    }
    if(mode == "--history")
    {
        // re-create a worker's process history: run indices start, start+stride, ... < idx, then idx twice with traces
        uint64_t start = strtoull(argv[2], NULL, 10), stride = strtoull(argv[3], NULL, 10), idx = strtoull(argv[4], NULL, 10);
        bool th = argc > 5 && std::string(argv[5]) == "thorough";
        for(uint64_t i = start; i < idx; i += stride) { Plan p; makePlan(c, baseSeed, i, th, p); Run run; c.execute(p, run); if((i / stride) % (uint64_t)c.recheckEvery() == (uint64_t)c.recheckEvery() / 5) { Run again; c.execute(p, again); } }
        Plan plan; makePlan(c, baseSeed, idx, th, plan);
        std::vector<uint64_t> t1, t2;
        { Run run; g_curRun = &run; g_trace = &t1; c.execute(plan, run); t1.push_back(run.log.h); }
        { Run run; g_curRun = &run; g_trace = &t2; c.execute(plan, run); t2.push_back(run.log.h); }
        g_trace = NULL; g_curRun = NULL;
        for(size_t i = 0; i < t1.size() && i < t2.size(); ++i)
            if(t1[i] != t2[i]) { printf("first difference before op %zu (%s); previous op %zu %s\n", i, i < plan.ops.size() ? c.opName(plan.ops[i].kind) : "end", i - 1, i ? opToString(plan.ops[i - 1], NULL).c_str() : "-"); return 1; }
        if(getenv("VERIF_TRACE_DUMP")) for(size_t i = 0; i < t1.size(); ++i) printf("mark %zu %llu %s\n", i, (unsigned long long)t1[i], i < plan.ops.size() ? opToString(plan.ops[i], NULL).c_str() : "end");
        printf("identical (%zu marks)\n", t1.size());
        return 0;
    }
    if(mode == "--exec")
    {
        // execute a plan file in-process (for gdb / valgrind)
        std::string text; Plan plan;
        if(argc < 3 || !readFile(argv[2], text) || !planFromString(text, plan)) return 2;
        Run run; c.execute(plan, run);
        printf("%s hash=%llu\n", run.v.set ? (run.v.cls() + " " + run.v.detail).c_str() : "clean", (unsigned long long)run.log.h);
        return run.v.set ? 1 : 0;
    }

    int nWorkers = 16;
    if(getenv("VERIF_WORKERS")) nWorkers = atoi(getenv("VERIF_WORKERS"));
    if(nWorkers < 1) nWorkers = 1;
    uint64_t totalRuns = thorough ? 0 : (uint64_t)c.quickRuns();
    if(getenv("VERIF_RUNS")) totalRuns = strtoull(getenv("VERIF_RUNS"), NULL, 10);
    double budget = thorough ? c.thoroughSeconds() : c.quickSeconds();
    if(getenv("VERIF_SECONDS")) budget = atof(getenv("VERIF_SECONDS"));
    double t0 = nowSec(), deadline = t0 + budget;

    std::vector<KnownFinding> known = loadKnownFindings(c.id());
    std::vector<WorkerSlot> ws((size_t)nWorkers);
    std::map<std::string, uint64_t> counters; std::set<uint64_t> states; double simSec = 0;
    uint64_t runsDone = 0, runsViol = 0, mismatches = 0;
    FILE *dumpF = getenv("VERIF_DUMP_HASHES") ? fopen(getenv("VERIF_DUMP_HASHES"), "w") : NULL;   // per-run log hashes, for chasing a worker-count dependence
    uint64_t batchHash = 0;  // order-independent digest of (run index, event-log hash) over all clean runs: equal across worker counts and repetitions
    std::map<std::string, ClassInfo> classes;
    std::vector<std::pair<uint64_t, Violation> > pending; // violations to process
    bool harnessError = false;

    auto spawn = [&](size_t w, uint64_t startIdx)
    {
        int pfd[2]; if(pipe(pfd) != 0) { ws[w].active = false; return; }
        char ep[256]; snprintf(ep, sizeof ep, "%s/%s.w%zu.err", tmpDir().c_str(), c.id(), w);
        ws[w].errPath = ep; ws[w].buf.clear(); ws[w].curIdx = -1; ws[w].curDone = true;
        fflush(stdout); fflush(stderr);
        pid_t pid = fork();
        if(pid == 0)
        {
            close(pfd[0]);
            for(size_t k = 0; k < ws.size(); ++k) if(k != w && ws[k].active) close(ws[k].fd);
            int nfd = open("/dev/null", O_WRONLY); if(nfd >= 0) { dup2(nfd, 1); close(nfd); }
            workerLoop(c, pfd[1], baseSeed, thorough, startIdx, (uint64_t)nWorkers, totalRuns, deadline, ep);
            _exit(0);
        }
        close(pfd[1]);
        ws[w].pid = pid; ws[w].fd = pfd[0]; ws[w].active = pid > 0;
    };
    for(size_t w = 0; w < ws.size(); ++w) { ws[w].active = false; spawn(w, (uint64_t)w); }

    auto handleLine = [&](WorkerSlot &s, const std::string &ln)
    {
        if(ln.empty()) return;
        switch(ln[0])
        {
        case 'R': s.curIdx = (int64_t)strtoull(ln.c_str() + 2, NULL, 10); s.curDone = false; break;
        case 'D': { s.curDone = true; ++runsDone; char *e2; uint64_t di = strtoull(ln.c_str() + 2, &e2, 10); uint64_t dh = strtoull(e2, NULL, 10); batchHash += mix64(di, dh); if(dumpF) fprintf(dumpF, "%llu %llu\n", (unsigned long long)di, (unsigned long long)dh); break; }
        case 'M': ++mismatches; printf("NONDETERMINISM: run index %s re-executed in-process gave a different event log\n", ln.c_str() + 2); break;
        case 'V':
        {
            s.curDone = true; ++runsDone; ++runsViol;
            char *e; uint64_t idx = strtoull(ln.c_str() + 2, &e, 10);
            std::string body = e + 1;
            size_t a = body.find('\x1f'), b = body.find('\x1f', a + 1);
            Violation v; v.set = true; v.tag = body.substr(0, a); v.sig = body.substr(a + 1, b - a - 1); v.detail = body.substr(b + 1);
            pending.push_back(std::make_pair(idx, v));
            break;
        }
        case 'C': { std::istringstream is(ln.substr(2)); std::string k; uint64_t d; is >> k >> d; counters[k] += d; break; }
        case 'T': simSec += atof(ln.c_str() + 2); break;
        case 'S': if(states.size() < 4000000) states.insert(strtoull(ln.c_str() + 2, NULL, 10)); break;
        default: break;
        }
    };

    size_t live = ws.size();
    while(live > 0)
    {
        std::vector<struct pollfd> pf; std::vector<size_t> idxOf;
        for(size_t w = 0; w < ws.size(); ++w) if(ws[w].active) { struct pollfd p; p.fd = ws[w].fd; p.events = POLLIN; p.revents = 0; pf.push_back(p); idxOf.push_back(w); }
        if(pf.empty()) break;
        int pr = poll(pf.data(), (nfds_t)pf.size(), 1000);
        if(pr < 0 && errno != EINTR) break;
        for(size_t i = 0; i < pf.size(); ++i)
        {
            if(!(pf[i].revents & (POLLIN | POLLHUP | POLLERR))) continue;
            WorkerSlot &s = ws[idxOf[i]];
            char buf[65536]; ssize_t n = read(s.fd, buf, sizeof buf);
            if(n > 0)
            {
                s.buf.append(buf, (size_t)n);
                size_t pos;
                while((pos = s.buf.find('\n')) != std::string::npos) { std::string ln = s.buf.substr(0, pos); s.buf.erase(0, pos + 1); handleLine(s, ln); }
                continue;
            }
            // EOF: worker finished or died
            close(s.fd); s.active = false;
            int status = 0; waitpid(s.pid, &status, 0);
            bool cleanExit = WIFEXITED(status) && WEXITSTATUS(status) == 0;
            if(!cleanExit && !s.curDone && s.curIdx >= 0)
            {
                std::string err; readFile(s.errPath, err);
                Violation v = classifyDeath(status, err);
                ++runsDone; ++runsViol;
                pending.push_back(std::make_pair((uint64_t)s.curIdx, v));
            }
            if(!cleanExit && s.curIdx >= 0 && nowSec() < deadline)
            {
                uint64_t next = (uint64_t)s.curIdx + (uint64_t)nWorkers;
                if(totalRuns == 0 || next < totalRuns) { spawn(idxOf[i], next); continue; }
            }
            else if(!cleanExit && s.curIdx < 0) harnessError = true;
            --live;
        }
        // record classes as they arrive (cheap); heavy work (gate+minimise) after the loop
        for(size_t k = 0; k < pending.size(); ++k)
        {
            const Violation &v = pending[k].second;
            std::map<std::string, ClassInfo>::iterator it = classes.find(v.cls());
            if(it == classes.end())
            {
                ClassInfo ci; ci.v = v; ci.firstIdx = pending[k].first; ci.count = 1; ci.known = false; ci.minOps = ci.origOps = 0;
                classes[v.cls()] = ci;
            }
            else { it->second.count++; if(pending[k].first < it->second.firstIdx) { it->second.firstIdx = pending[k].first; it->second.v = v; } }
        }
        pending.clear();
        live = 0; for(size_t w = 0; w < ws.size(); ++w) if(ws[w].active) ++live;
    }
    for(size_t w = 0; w < ws.size(); ++w) unlink(ws[w].errPath.c_str());
    double tExplore = nowSec() - t0;

    // ---- process violation classes: known-finding match, determinism gate, minimise, replay file
    int exitCode = 0; size_t processed = 0; std::map<std::string, int> perTag;
    mkdir((g_root + "/replays").c_str(), 0755);
    for(std::map<std::string, ClassInfo>::iterator it = classes.begin(); it != classes.end(); ++it)
    {
        ClassInfo &ci = it->second;
        const KnownFinding *k = matchKnown(known, ci.v);
        Plan plan; makePlan(c, baseSeed, ci.firstIdx, thorough, plan);
        ci.origOps = plan.ops.size();
        if(k)
        {
            ci.known = true; ci.knownWhat = k->what;
            printf("KNOWN-FINDING: property=%s %s (class %s, %llu runs, first index %llu)\n", c.id(), k->what.c_str(), it->first.c_str(),
                   (unsigned long long)ci.count, (unsigned long long)ci.firstIdx);
            continue;
        }
        // VERIF_ONLY_CLASS=<substring>: shrink only matching classes (used to re-record a replay on an old tree full of other defects)
        if(getenv("VERIF_ONLY_CLASS") && it->first.find(getenv("VERIF_ONLY_CLASS")) == std::string::npos) { printf("NOTE: violation class %s (%llu runs) skipped (VERIF_ONLY_CLASS)\n", it->first.c_str(), (unsigned long long)ci.count); exitCode = 1; continue; }
        // at most 2 minimised classes per oracle tag and 10 overall: the remaining ones are reported, not shrunk
        if(++perTag[ci.v.tag] > 2 || processed >= 10) { printf("NOTE: further violation class %s (%llu runs, first index %llu) not minimised\n", it->first.c_str(), (unsigned long long)ci.count, (unsigned long long)ci.firstIdx); exitCode = 1; continue; }
        ++processed;
        // determinism gate 1: same plan, two forked executions, same class
        std::string clsName = it->first;
        EvalResult r1 = evalInChild(c, plan, c.cpuBudgetSec(), g_sanitized);
        EvalResult r2 = evalInChild(c, plan, c.cpuBudgetSec(), g_sanitized);
        if(c.verdictMayFlicker()) for(int tries = 0; tries < 6 && !(r1.v.set && r2.v.set && r1.v.cls() == clsName && r2.v.cls() == clsName); ++tries) { EvalResult r = evalInChild(c, plan, c.cpuBudgetSec(), g_sanitized); if(!(r1.v.set && r1.v.cls() == clsName)) r1 = r; else r2 = r; }
        // A wild access is labelled by ASan after what happens to lie at the address (heap-buffer-overflow, unknown-crash, SEGV, ...): inside a worker
        // that has executed other plans before, the neighbourhood differs from a fresh process. When both fresh evaluations agree with each other and
        // all three are sanitizer memory-error classes, the fresh label is the canonical one (same plan, same defect); every other disagreement stays a harness error.
        if(r1.v.set && r2.v.set && r1.v.cls() == r2.v.cls() && r1.v.cls() != clsName && clsName.compare(0, 5, "asan:") == 0 && r1.v.cls().compare(0, 5, "asan:") == 0)
        {
            if(classes.count(r1.v.cls())) { printf("NOTE: violation class %s (%llu runs, first index %llu) is class %s in a fresh process (reported there)\n", clsName.c_str(), (unsigned long long)ci.count, (unsigned long long)ci.firstIdx, r1.v.cls().c_str()); exitCode = 1; continue; }
            printf("NOTE: violation class %s is labelled %s in a fresh process; reported under the latter\n", clsName.c_str(), r1.v.cls().c_str());
            clsName = r1.v.cls();
        }
        if(!r1.v.set || !r2.v.set || r1.v.cls() != clsName || r2.v.cls() != clsName)
        {
            printf("HARNESS-ERROR: class %s at index %llu did not reproduce deterministically (got '%s' / '%s')\n", clsName.c_str(),
                   (unsigned long long)ci.firstIdx, r1.v.set ? r1.v.cls().c_str() : "clean", r2.v.set ? r2.v.cls().c_str() : "clean");
            harnessError = true; continue;
        }
        printf("minimising class %s (first index %llu, %zu ops)...\n", clsName.c_str(), (unsigned long long)ci.firstIdx, plan.ops.size());
        Minimiser m(c, ci.v.tag == "hang" ? std::max(3, c.cpuBudgetSec() / 4) : std::max(3, c.cpuBudgetSec() / 2), g_sanitized, clsName);
        m.run(plan);
        ci.minOps = plan.ops.size();
        char rp[512]; snprintf(rp, sizeof rp, "%s/replays/%s-%llu-%llu.plan", g_root.c_str(), c.id(), (unsigned long long)baseSeed, (unsigned long long)ci.firstIdx);
        std::string text = planToString(plan, NULL);
        {
            // annotate with op names for the reader
            std::ostringstream os; os << "verif-plan 1\n# class " << clsName << "\n# detail " << ci.v.detail << "\n# generators " << VERIF_GEN_HASH << "\n";
            std::string body = text.substr(text.find('\n') + 1);
            std::istringstream is(body); std::string ln; size_t oi = 0;
            while(std::getline(is, ln))
            {
                if(ln.compare(0, 3, "op ") == 0 && oi < plan.ops.size()) { ln = opToString(plan.ops[oi], NULL); size_t q = ln.find(" ? "); if(q != std::string::npos) ln.replace(q, 3, std::string(" ") + c.opName(plan.ops[oi].kind) + " "); ++oi; }
                os << ln << "\n";
            }
            text = os.str();
        }
        writeFile(rp, text);
        ci.replay = rp;
        // determinism gate 2: fresh process replay of the written file must give the same class
        {
            char self[4096]; ssize_t n = readlink("/proc/self/exe", self, sizeof self - 1); self[n > 0 ? n : 0] = 0;
            std::string cmd = std::string(self) + " --replay " + rp + " 2>/dev/null";
            FILE *pp = popen(cmd.c_str(), "r"); std::string out; char b[1024];
            if(pp) { while(fgets(b, sizeof b, pp)) out += b; pclose(pp); }
            if(out.find("REPLAY class=" + clsName) == std::string::npos)
            {
                printf("HARNESS-ERROR: fresh-process replay of %s did not reproduce class %s: %s\n", rp, clsName.c_str(), out.c_str());
                harnessError = true; continue;
            }
        }
        printf("VIOLATION property=%s replay=%s\n", c.id(), rp);
        printf("  class=%s runs=%llu first_index=%llu ops %zu->%zu (%d evals) detail=%s\n", clsName.c_str(), (unsigned long long)ci.count,
               (unsigned long long)ci.firstIdx, ci.origOps, ci.minOps, m.evals, ci.v.detail.c_str());
        exitCode = 1;
    }
    if(mismatches) { printf("HARNESS-ERROR: %llu in-process re-executions gave a different event log (nondeterminism)\n", (unsigned long long)mismatches); harnessError = true; }

    double wall = nowSec() - t0;
    // ---- evidence
    {
        std::ostringstream js;
        uint64_t ops = counters["_ops"]; counters.erase("_ops");
        uint64_t rechecks = counters["_determinism_rechecks"]; counters.erase("_determinism_rechecks");
        std::map<std::string, uint64_t> faults, probes;
        for(std::map<std::string, uint64_t>::iterator it = counters.begin(); it != counters.end(); ++it)
        {
            if(it->first.compare(0, 6, "fault.") == 0) faults[it->first.substr(6)] = it->second; else probes[it->first] = it->second;
        }
        std::vector<std::string> req = c.requiredProbes(), zero;
        for(size_t i = 0; i < req.size(); ++i) if(!counters.count(req[i]) || counters[req[i]] == 0) zero.push_back(req[i]);
        size_t nviol = 0, nknown = 0;
        for(std::map<std::string, ClassInfo>::iterator it = classes.begin(); it != classes.end(); ++it) { if(it->second.known) ++nknown; else ++nviol; }
        js << "{\n \"property_id\": \"" << c.id() << "\",\n \"tier\": \"" << (thorough ? "thorough" : "quick") << "\",\n \"seed\": " << baseSeed
           << ",\n \"level\": \"exploration\",\n \"coverage\": {\n";
        js << "  \"evaluations\": " << runsDone << ",\n  \"distinct_nontrivial\": " << states.size() << ",\n";
        js << "  \"rule\": \"" << jsonEscape(c.rule()) << "\",\n";
        js << "  \"samples\": [";
        for(uint64_t i = 0; i < 2; ++i)
        {
            Plan p; makePlan(c, baseSeed, i, thorough, p);
            std::ostringstream ss; ss << "seed=" << p.seed << " idx=" << i << " cfg{";
            for(std::map<std::string, int64_t>::iterator ct = p.cfg.begin(); ct != p.cfg.end(); ++ct) ss << ct->first << "=" << ct->second << " ";
            ss << "} ops[" << p.ops.size() << "]:";
            for(size_t k = 0; k < p.ops.size() && k < 14; ++k)
            {
                ss << " " << c.opName(p.ops[k].kind) << "(" << p.ops[k].a[0] << "," << p.ops[k].a[1] << "," << p.ops[k].a[2] << ")";
                if(!p.ops[k].faults.empty()) ss << "!f" << p.ops[k].faults.size();
            }
            js << (i ? ", " : "") << "\"" << jsonEscape(ss.str()) << "\"";
        }
        js << "],\n";
        js << "  \"simulated_runs\": " << runsDone << ",\n  \"ops_executed\": " << ops << ",\n";
        js << "  \"runs_per_hour\": " << (uint64_t)(tExplore > 0 ? runsDone * 3600.0 / tExplore : 0) << ",\n";
        js << "  \"seeds_per_hour\": " << (uint64_t)(tExplore > 0 ? runsDone * 3600.0 / tExplore : 0) << ",\n";
        js << "  \"simulated_seconds\": " << simSec << ",\n";
        js << "  \"workers\": " << nWorkers << ",\n  \"batch_log_hash\": \"" << batchHash << "\",\n";
        js << "  \"determinism_rechecks_equal\": " << rechecks << ",\n  \"determinism_mismatches\": " << mismatches << ",\n";
        js << "  \"faults_fired\": {";
        { bool f = true; for(std::map<std::string, uint64_t>::iterator it = faults.begin(); it != faults.end(); ++it) { js << (f ? "" : ", ") << "\"" << it->first << "\": " << it->second; f = false; } }
        js << "},\n  \"probes\": {";
        { bool f = true; for(std::map<std::string, uint64_t>::iterator it = probes.begin(); it != probes.end(); ++it) { js << (f ? "" : ", ") << "\"" << it->first << "\": " << it->second; f = false; } }
        js << "},\n  \"probes_stuck_at_zero\": [";
        for(size_t i = 0; i < zero.size(); ++i) js << (i ? ", " : "") << "\"" << zero[i] << "\"";
        js << "],\n  \"components_real\": [";
        { std::vector<std::string> v = c.realComponents(); for(size_t i = 0; i < v.size(); ++i) js << (i ? ", " : "") << "\"" << jsonEscape(v[i]) << "\""; }
        js << "],\n  \"components_stub\": [";
        { std::vector<std::string> v = c.stubComponents(); for(size_t i = 0; i < v.size(); ++i) js << (i ? ", " : "") << "\"" << jsonEscape(v[i]) << "\""; }
        js << "],\n  \"violation_classes\": [";
        { bool f = true; for(std::map<std::string, ClassInfo>::iterator it = classes.begin(); it != classes.end(); ++it) {
            js << (f ? "" : ", ") << "{\"class\": \"" << jsonEscape(it->first) << "\", \"runs\": " << it->second.count << ", \"known\": " << (it->second.known ? "true" : "false")
               << ", \"replay\": \"" << jsonEscape(it->second.replay) << "\", \"ops_before\": " << it->second.origOps << ", \"ops_after\": " << it->second.minOps << "}"; f = false; } }
        js << "],\n  \"technique\": \"" << jsonEscape(c.technique()) << "\"" << c.extraCoverageJson();
        if(getenv("VERIF_EVIDENCE_PREV")) { std::string prev; if(readFile(getenv("VERIF_EVIDENCE_PREV"), prev) && prev.find('{') != std::string::npos) js << ",\n  \"previous_phase\": " << prev; }
        js << "\n },\n";
        js << " \"assumptions\": [";
        { std::vector<std::string> v = c.assumptions(); for(size_t i = 0; i < v.size(); ++i) js << (i ? ", " : "") << "\"" << jsonEscape(v[i]) << "\""; }
        js << "],\n \"wall_s\": " << wall << ",\n \"violations\": " << nviol << ",\n \"known_findings_hit\": " << nknown << "\n}\n";
        mkdir((g_root + "/evidence").c_str(), 0755);
        writeFile(g_root + "/evidence/" + c.id() + ".json", js.str());
        if(thorough) writeFile(g_root + "/evidence/" + c.id() + ".thorough.json", js.str());   // kept next to the per-change quick evidence
        printf("%s %s: runs=%llu ops=%llu distinct_states=%zu sim_s=%.1f wall=%.1fs violations=%zu known=%zu%s\n", c.id(), thorough ? "thorough" : "quick",
               (unsigned long long)runsDone, (unsigned long long)ops, states.size(), simSec, wall, nviol, nknown, zero.empty() ? "" : " (some probes at zero, see evidence)");
        if(thorough && !zero.empty()) { printf("NOTE: probes stuck at zero:"); for(size_t i = 0; i < zero.size(); ++i) printf(" %s", zero[i].c_str()); printf("\n"); }
    }
    if(harnessError) return 2;
    if(runsDone == 0) { printf("HARNESS-ERROR: no runs executed\n"); return 2; }
    return exitCode;
}

} // namespace sim
