// Harness-side view of the library: internal-state snapshots (hook H1), register tap (hook H2),
// independent WOPN/OPNI writers (the harness never uses the library's own serialiser to build
// inputs, except where the property is about that serialiser).
#pragma once
#include <vector>
#include <string>
#include <map>
#include <cstdint>
#include <cstring>
#include <cmath>

#include "opnmidi_midiplay.hpp"
#include "opnmidi_opn2.hpp"
#include "opnmidi.h"
#include "rng.hpp"

struct OPNMIDI_VerifAccess
{
    static OPNMIDIplay *P(OPN2_MIDIPlayer *d) { return reinterpret_cast<OPNMIDIplay *>(d->opn2_midiPlayer); }
    static std::vector<OPNMIDIplay::OpnChannel> &chipChannels(OPNMIDIplay *p) { return p->m_chipChannels; }
    static std::vector<OpnTimbre> &insCache(OPN2 *s) { return s->m_insCache; }
    static std::vector<uint8_t> &regLFOSens(OPN2 *s) { return s->m_regLFOSens; }
    static size_t arpeggioCounter(OPNMIDIplay *p) { return p->m_arpeggioCounter; }
};

namespace sim {

typedef OPNMIDI_VerifAccess Acc;

// --------------------------------------------------------------------------------------
// register tap (player -> chip transport)
struct TapRec { const void *synth; uint16_t chip; uint8_t port; uint16_t reg; uint8_t val; uint8_t isPan; };

struct Tap
{
    std::vector<TapRec> recs;
    bool enabled;
    size_t cap;
    uint64_t total;
    Tap() : enabled(false), cap(1u << 20), total(0) {}
};
static thread_local Tap g_tap;   // one tap log per simulated caller thread

extern "C" void verif_tap_cb(const void *synth, unsigned chip, unsigned port, unsigned reg, unsigned val, int isPan)
{
    ++g_tap.total;
    if(!g_tap.enabled) return;
    if(g_tap.recs.size() >= g_tap.cap) return;
    TapRec r; r.synth = synth; r.chip = (uint16_t)chip; r.port = (uint8_t)port; r.reg = (uint16_t)reg; r.val = (uint8_t)val; r.isPan = (uint8_t)isPan;
    g_tap.recs.push_back(r);
}
static inline void tapInstall(bool on) { opnmidi_verif_regtap = on ? verif_tap_cb : NULL; g_tap.enabled = on; g_tap.recs.clear(); }

// per-instance chip key state reconstructed from the tapped 0x28 writes
struct KeyState
{
    std::vector<uint8_t> on; // per chip channel (chip*6 + ch)
    void resize(size_t n) { on.assign(n, 0); }
    // returns chip-channel index or -1
    static int chanOf(unsigned chip, unsigned val)
    {
        static const int map[8] = { 0, 1, 2, -1, 3, 4, 5, -1 };
        int c = map[val & 7];
        return c < 0 ? -1 : (int)(chip * 6) + c;
    }
    void apply(const TapRec &t)
    {
        if(t.isPan || t.port != 0 || t.reg != 0x28) return;
        int c = chanOf(t.chip, t.val);
        if(c < 0) return;
        if((size_t)c >= on.size()) on.resize((size_t)c + 1, 0);
        on[(size_t)c] = (t.val & 0xF0) ? 1 : 0;
    }
};

// --------------------------------------------------------------------------------------
// independent WOPN writer
struct GenIns
{
    char name[32];
    int16_t noteOffset;
    uint8_t percKey;
    uint8_t fbalg, lfosens;
    uint8_t ops[4][7];
    uint16_t delayOn, delayOff;
    bool blank;
    GenIns() { memset(this, 0, sizeof *this); }
};
struct GenBank
{
    char name[32];
    uint8_t lsb, msb;
    GenIns ins[128];
    GenBank() : lsb(0), msb(0) { memset(name, 0, sizeof name); }
};
struct GenWopn
{
    int version;            // 1 or 2
    uint8_t lfoFreq;        // low nibble: bit3 enable, bits0-2 freq
    uint8_t chipType;       // 0 OPN2, 1 OPNA
    std::vector<GenBank> mel, perc;
    GenWopn() : version(2), lfoFreq(0), chipType(0) {}
};

static inline void putBE16(std::vector<uint8_t> &o, unsigned v) { o.push_back((uint8_t)(v >> 8)); o.push_back((uint8_t)v); }
static inline void putLE16(std::vector<uint8_t> &o, unsigned v) { o.push_back((uint8_t)v); o.push_back((uint8_t)(v >> 8)); }

static inline void writeGenIns(std::vector<uint8_t> &o, const GenIns &in, int version, bool withDelays)
{
    for(int i = 0; i < 32; ++i) o.push_back((uint8_t)in.name[i]);
    putBE16(o, (uint16_t)in.noteOffset);
    o.push_back(in.percKey); o.push_back(in.fbalg); o.push_back(in.lfosens);
    for(int l = 0; l < 4; ++l) for(int k = 0; k < 7; ++k) o.push_back(in.ops[l][k]);
    if(version >= 2 && withDelays)
    {
        if(in.blank) { putBE16(o, 0); putBE16(o, 0); }
        else { putBE16(o, in.delayOn); putBE16(o, in.delayOff); }
    }
}

static inline std::vector<uint8_t> writeWopn(const GenWopn &w)
{
    std::vector<uint8_t> o;
    const char *magic = w.version >= 2 ? "WOPN2-B2NK" : "WOPN2-BANK";
    for(int i = 0; i < 10; ++i) o.push_back((uint8_t)magic[i]);
    o.push_back(0);
    if(w.version >= 2) putLE16(o, (unsigned)w.version);
    putBE16(o, (unsigned)w.mel.size()); putBE16(o, (unsigned)w.perc.size());
    o.push_back((uint8_t)((w.lfoFreq & 0x0F) | (w.version >= 2 ? ((w.chipType & 1) << 4) : 0)));
    if(w.version >= 2)
    {
        for(int s = 0; s < 2; ++s)
        {
            const std::vector<GenBank> &bs = s ? w.perc : w.mel;
            for(size_t j = 0; j < bs.size(); ++j)
            {
                for(int i = 0; i < 32; ++i) o.push_back((uint8_t)bs[j].name[i]);
                o.push_back(bs[j].lsb); o.push_back(bs[j].msb);
            }
        }
    }
    for(int s = 0; s < 2; ++s)
    {
        const std::vector<GenBank> &bs = s ? w.perc : w.mel;
        for(size_t j = 0; j < bs.size(); ++j)
            for(int k = 0; k < 128; ++k) writeGenIns(o, bs[j].ins[k], w.version, true);
    }
    return o;
}

// A random but well-formed instrument. Every (tagA, tagB) pair yields distinct operator bytes so a
// register write is attributable to one instrument: ops[0][4]=tagA(program), ops[1][4]=tagB(bank tag),
// ops[2][4] = kind tag.
static inline void fillIns(Rng &r, GenIns &in, unsigned tagA, unsigned tagB, unsigned tagC, bool extreme)
{
    memset(&in, 0, sizeof in);
    snprintf(in.name, sizeof in.name, "i%u.%u.%u", tagA, tagB, tagC);
    in.noteOffset = (int16_t)(extreme ? r.pick<int>({ -32768, -20000, -128, -36, -12, 0, 12, 36, 127, 12000, 12161, 20000, 32767 }) : (r.chance(0.7) ? 0 : (int)r.range(-24, 24)));
    in.percKey = 0;
    in.fbalg = (uint8_t)(extreme ? r.below(256) : r.below(64));
    in.lfosens = (uint8_t)(extreme ? r.below(256) : r.below(64));
    for(int l = 0; l < 4; ++l)
    {
        for(int k = 0; k < 7; ++k) in.ops[l][k] = (uint8_t)r.below(256);
        if(!extreme) { in.ops[l][0] &= 0x7F; in.ops[l][1] &= 0x7F; }
    }
    in.ops[0][4] = (uint8_t)tagA; in.ops[1][4] = (uint8_t)tagB; in.ops[2][4] = (uint8_t)tagC;
    in.delayOn = (uint16_t)(extreme ? r.pick<int>({ 1, 40000, 65535, 500 }) : r.pick<int>({ 1, 50, 300, 2000, 40000, 65535 }));
    in.delayOff = (uint16_t)(extreme ? r.pick<int>({ 0, 1, 65535, 300 }) : r.pick<int>({ 0, 1, 40, 400, 5000 }));
    in.blank = false;
}

struct BankGenOpts
{
    int version;
    int nMel, nPerc;        // number of banks
    double blankProb;
    bool extreme;
    bool sameTimbre;        // few distinct timbres (opens the arpeggio same-instrument path)
    BankGenOpts() : version(2), nMel(1), nPerc(1), blankProb(0.0), extreme(false), sameTimbre(false) {}
};

static inline GenWopn genWopn(Rng &r, const BankGenOpts &o)
{
    GenWopn w; w.version = o.version;
    w.lfoFreq = (uint8_t)r.below(16); w.chipType = (uint8_t)r.below(2);
    std::set<unsigned> used[2];
    for(int s = 0; s < 2; ++s)
    {
        int n = s ? o.nPerc : o.nMel;
        std::vector<GenBank> &bs = s ? w.perc : w.mel;
        bs.resize((size_t)n);
        for(int j = 0; j < n; ++j)
        {
            GenBank &b = bs[(size_t)j];
            snprintf(b.name, sizeof b.name, "%s%d", s ? "P" : "M", j);
            // first bank is 0:0; others get distinct small MSB/LSB (so fallbacks are exercised)
            unsigned key = 0;
            if(j > 0)
            {
                for(int t = 0; t < 50; ++t)
                {
                    unsigned msb = (unsigned)r.pick<int>({ 0, 0, 1, 2, 8, 64, 126, 127 }), lsb = (unsigned)r.pick<int>({ 0, 0, 1, 2, 3, 127 });
                    key = (msb << 8) | lsb;
                    if(key != 0 && !used[s].count(key)) break;
                    key = 0x100u * (unsigned)j + (unsigned)t;
                }
            }
            used[s].insert(key);
            b.msb = (uint8_t)(key >> 8); b.lsb = (uint8_t)(key & 0xFF);
            GenIns shared; if(o.sameTimbre) fillIns(r, shared, 200, (unsigned)j, (unsigned)s, false);
            for(int k = 0; k < 128; ++k)
            {
                GenIns &in = b.ins[k];
                if(o.sameTimbre && (k % 4) != 0) { in = shared; }
                else fillIns(r, in, (unsigned)k, (unsigned)(s * 16 + j), (unsigned)(b.msb ^ b.lsb), o.extreme);
                if(s) in.percKey = (uint8_t)(o.extreme ? r.below(256) : (r.chance(0.8) ? (int)r.range(24, 90) : 0));
                if(r.chance(o.blankProb)) { in.blank = true; in.delayOn = in.delayOff = 0; }
                if(w.version < 2) { in.delayOn = in.delayOff = 0; in.blank = false; }
            }
        }
    }
    return w;
}

static inline std::vector<uint8_t> stdBankImage(uint64_t seed, int nMel = 1, int nPerc = 1, bool sameTimbre = false, double blankProb = 0.0)
{
    Rng r(mix64(seed, 0xBA4C));
    BankGenOpts o; o.nMel = nMel; o.nPerc = nPerc; o.sameTimbre = sameTimbre; o.blankProb = blankProb;
    return writeWopn(genWopn(r, o));
}

} // namespace sim
