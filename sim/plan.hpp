// A run = one Plan: swarm configuration + explicit op list with faults attached to the op
// they hit. Plans are generated from the run seed *before* execution so they can be written
// to a replay file, shrunk (ddmin), and re-executed exactly. Operands are interpreted by the
// checks modulo live state, so any subsequence of a plan is again a valid plan.
#pragma once
#include <cstdint>
#include <cstdio>
#include <cstdlib>
#include <cstring>
#include <string>
#include <vector>
#include <map>
#include <sstream>
#include <fstream>

namespace sim {

struct Fault
{
    int kind;       // check/SimFS specific
    int64_t arg;    // e.g. byte offset
    int64_t arg2;   // e.g. mask
    Fault() : kind(0), arg(0), arg2(0) {}
    Fault(int k, int64_t a, int64_t b = 0) : kind(k), arg(a), arg2(b) {}
};

struct Op
{
    int kind;
    int task;               // simulated caller thread
    int inst;               // instance selector (mod live instances)
    int64_t a[6];
    double d;
    std::vector<uint8_t> blob;
    std::vector<Fault> faults;
    Op() : kind(0), task(0), inst(0), d(0.0) { for(int i = 0; i < 6; ++i) a[i] = 0; }
    Op(int k, int64_t a0 = 0, int64_t a1 = 0, int64_t a2 = 0, int64_t a3 = 0, int64_t a4 = 0, int64_t a5 = 0)
        : kind(k), task(0), inst(0), d(0.0)
    { a[0] = a0; a[1] = a1; a[2] = a2; a[3] = a3; a[4] = a4; a[5] = a5; }
};

struct Plan
{
    std::string property;
    uint64_t seed;          // the run seed this plan was generated from
    uint64_t index;         // run index inside the batch
    std::map<std::string, int64_t> cfg;   // ordered => deterministic iteration
    std::vector<Op> ops;
    Plan() : seed(0), index(0) {}
    int64_t get(const char *k, int64_t def = 0) const
    {
        std::map<std::string, int64_t>::const_iterator it = cfg.find(k);
        return it == cfg.end() ? def : it->second;
    }
};

typedef const char *(*OpNameFn)(int kind);

static inline std::string toHex(const std::vector<uint8_t> &b)
{
    static const char *d = "0123456789abcdef";
    std::string s; s.reserve(b.size() * 2);
    for(size_t i = 0; i < b.size(); ++i) { s.push_back(d[b[i] >> 4]); s.push_back(d[b[i] & 15]); }
    return s;
}
static inline std::vector<uint8_t> fromHex(const std::string &s)
{
    std::vector<uint8_t> b; b.reserve(s.size() / 2);
    for(size_t i = 0; i + 1 < s.size(); i += 2)
    {
        char t[3] = { s[i], s[i + 1], 0 };
        b.push_back((uint8_t)strtoul(t, NULL, 16));
    }
    return b;
}

static inline std::string opToString(const Op &o, OpNameFn nameOf)
{
    std::ostringstream os;
    os << "op " << o.kind << " " << (nameOf ? nameOf(o.kind) : "?") << " t=" << o.task << " i=" << o.inst << " a=";
    for(int i = 0; i < 6; ++i) { if(i) os << ","; os << o.a[i]; }
    char db[64]; snprintf(db, sizeof db, "%.17g", o.d);
    os << " d=" << db;
    os << " blob=" << (o.blob.empty() ? "-" : toHex(o.blob));
    os << " faults=";
    if(o.faults.empty()) os << "-";
    for(size_t i = 0; i < o.faults.size(); ++i)
    {
        if(i) os << ";";
        os << o.faults[i].kind << ":" << o.faults[i].arg << ":" << o.faults[i].arg2;
    }
    return os.str();
}

static inline std::string planToString(const Plan &p, OpNameFn nameOf)
{
    std::ostringstream os;
    os << "verif-plan 1\n";
    os << "property " << p.property << "\n";
    os << "seed " << p.seed << " index " << p.index << "\n";
    for(std::map<std::string, int64_t>::const_iterator it = p.cfg.begin(); it != p.cfg.end(); ++it)
        os << "cfg " << it->first << " " << it->second << "\n";
    for(size_t i = 0; i < p.ops.size(); ++i)
        os << opToString(p.ops[i], nameOf) << "\n";
    os << "end\n";
    return os.str();
}

static inline bool planFromString(const std::string &text, Plan &p)
{
    std::istringstream is(text);
    std::string line;
    if(!std::getline(is, line) || line.compare(0, 10, "verif-plan") != 0) return false;
    p = Plan();
    while(std::getline(is, line))
    {
        if(line.empty() || line[0] == '#') continue;
        std::istringstream ls(line);
        std::string w; ls >> w;
        if(w == "property") ls >> p.property;
        else if(w == "seed") { std::string x; ls >> p.seed >> x >> p.index; }
        else if(w == "cfg") { std::string k; int64_t v; ls >> k >> v; p.cfg[k] = v; }
        else if(w == "op")
        {
            Op o; std::string name, tok;
            ls >> o.kind >> name;
            while(ls >> tok)
            {
                if(tok.compare(0, 2, "t=") == 0) o.task = atoi(tok.c_str() + 2);
                else if(tok.compare(0, 2, "i=") == 0) o.inst = atoi(tok.c_str() + 2);
                else if(tok.compare(0, 2, "a=") == 0)
                {
                    const char *s = tok.c_str() + 2; int i = 0;
                    while(*s && i < 6) { o.a[i++] = strtoll(s, (char **)&s, 10); if(*s == ',') ++s; }
                }
                else if(tok.compare(0, 2, "d=") == 0) o.d = strtod(tok.c_str() + 2, NULL);
                else if(tok.compare(0, 5, "blob=") == 0) { if(tok != "blob=-") o.blob = fromHex(tok.substr(5)); }
                else if(tok.compare(0, 7, "faults=") == 0)
                {
                    if(tok != "faults=-")
                    {
                        const char *s = tok.c_str() + 7;
                        while(*s)
                        {
                            Fault f;
                            f.kind = (int)strtol(s, (char **)&s, 10); if(*s == ':') ++s;
                            f.arg = strtoll(s, (char **)&s, 10); if(*s == ':') ++s;
                            f.arg2 = strtoll(s, (char **)&s, 10);
                            o.faults.push_back(f);
                            if(*s == ';') ++s; else break;
                        }
                    }
                }
            }
            p.ops.push_back(o);
        }
        else if(w == "end") return true;
    }
    return true;
}

static inline bool writeFile(const std::string &path, const std::string &content)
{
    std::ofstream f(path.c_str(), std::ios::binary | std::ios::trunc);
    if(!f) return false;
    f << content;
    return (bool)f;
}
static inline bool readFile(const std::string &path, std::string &content)
{
    std::ifstream f(path.c_str(), std::ios::binary);
    if(!f) return false;
    std::ostringstream os; os << f.rdbuf(); content = os.str();
    return true;
}

} // namespace sim
