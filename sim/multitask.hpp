// Multi-task simulation for C14: 2..4 simulated caller threads ("tasks"), each with its own instances and
// history; the PRNG interleaves their calls at API-call granularity (the library has no internal blocking, so
// call boundaries are the scheduling points). Three executors for one plan:
//   solo        - only the observed task's ops, in a forked fresh process (reference)
//   interleaved - all tasks' ops in schedule order on one thread
//   threaded    - every task on its own real thread; exactly one holds the baton; the baton is handed over by
//                 a raw futex on a plain word inside no_sanitize("thread") functions, i.e. by a mechanism TSan does not
//                 model as synchronisation: execution is strictly serial and replayable, yet in TSan's
//                 happens-before graph the calls of different tasks are unordered, so conflicting accesses to the
//                 same location are reported deterministically for that schedule.
#pragma once
#include "apiops.hpp"
#include "formats.hpp"
#include <pthread.h>
#include <sched.h>

namespace sim {

struct Baton
{
    volatile int holder;     // task id that may run; -1 = main
    volatile int done;
};

// raw futex through an inline syscall: no libc wrapper, nothing a sanitizer intercepts or models
__attribute__((no_sanitize("thread"))) static inline long rawFutex(volatile int *addr, int op, int val)
{
    long ret;
    register long r10 __asm__("r10") = 0;   // no timeout
    __asm__ __volatile__("syscall" : "=a"(ret) : "0"(202L), "D"(addr), "S"((long)op), "d"((long)val), "r"(r10) : "rcx", "r11", "memory");
    return ret;
}

__attribute__((no_sanitize("thread"))) static inline void batonWait(Baton *b, int me)
{
    for(;;)
    {
        int h = b->holder;
        if(h == me) break;
        rawFutex(&b->holder, 0 /*FUTEX_WAIT*/, h);   // sleeps only while the word still holds h
    }
    __asm__ __volatile__("" ::: "memory");
}
__attribute__((no_sanitize("thread"))) static inline void batonPass(Baton *b, int to)
{
    __asm__ __volatile__("mfence" ::: "memory");
    b->holder = to;
    __asm__ __volatile__("mfence" ::: "memory");
    rawFutex(&b->holder, 1 /*FUTEX_WAKE*/, 64);
}

// a call made without a device: fails and stores its message in the library's process-wide error string
enum { MT_NULLDEV = A_COUNT + 1 };
static inline const char *mtOpName(int k) { return k == MT_NULLDEV ? "openBankData(NULL)+errorString" : apiOpName(k); }

struct TaskCtx
{
    int id;
    World world;
    Run run;                       // own log: PCM, return values
    std::vector<uint64_t> marks;   // cumulative observation hash after each of the task's ops
    std::map<const void *, int> synthOrdinal;
    TaskCtx() : id(0) {}
};

// observation of one op of one task: return values/PCM (execApi log) + the register stream of its instances
static inline void execTaskOp(TaskCtx &t, const Op &o)
{
    g_tap.recs.clear(); g_tap.enabled = true;
    if(o.kind == MT_NULLDEV)
    {
        static const char junk[4] = { 'W', 'O', 'P', 'N' };
        int r = opn2_openBankData(NULL, junk, sizeof junk); const char *e = opn2_errorString();
        t.run.log.add((uint64_t)(int64_t)r); (void)e; t.run.count("null_device_call");
        t.marks.push_back(t.run.log.h); return;
    }
    Op local = o; local.task = t.id;
    ApiResult res = execApi(t.world, local); (void)res;
    Hasher h; h.add(t.run.log.h);
    for(size_t k = 0; k < g_tap.recs.size(); ++k)
    {
        const TapRec &r = g_tap.recs[k];
        std::map<const void *, int>::iterator it = t.synthOrdinal.find(r.synth);
        int ord; if(it == t.synthOrdinal.end()) { ord = (int)t.synthOrdinal.size(); t.synthOrdinal[r.synth] = ord; } else ord = it->second;
        h.add((uint64_t)ord); h.add(r.chip); h.add(r.port); h.add(r.reg); h.add(r.val); h.add(r.isPan);
    }
    g_tap.recs.clear();
    t.run.log.add(h.h);
    t.marks.push_back(t.run.log.h);
}

struct MtPlanInfo { int tasks; };

static inline void mtSetupWorld(TaskCtx &t, const Plan &p)
{
    t.world.run = &t.run; t.world.maxInst = 2; t.world.observeGlobalErrorString = false;
    uint64_t bs = (uint64_t)p.get("bankseed") + (uint64_t)t.id * 7;
    t.world.bankImages.push_back(stdBankImage(bs, 1, 1));
    t.world.bankImages.push_back(stdBankImage(bs + 1, 1, 1, true));
    t.world.songImages.push_back(stockSong((uint64_t)p.get("songseed") + (uint64_t)t.id, 0, true));
    t.world.songImages.push_back(stockSong((uint64_t)p.get("songseed") + 100 + (uint64_t)t.id, 1, true));
}

// ---- executors ------------------------------------------------------------------------------------------
static inline void runInterleaved(const Plan &p, std::vector<TaskCtx> &tasks, int onlyTask)
{
    for(size_t i = 0; i < p.ops.size(); ++i)
    {
        const Op &o = p.ops[i];
        if(onlyTask >= 0 && o.task != onlyTask) continue;
        execTaskOp(tasks[(size_t)o.task], o);
    }
}

struct ThreadArg { Baton *b; TaskCtx *t; const Plan *p; };

static void *taskThread(void *arg)
{
    ThreadArg *a = (ThreadArg *)arg;
    tapInstall(true);   // thread-local tap log
    const Plan &p = *a->p;
    for(size_t i = 0; i < p.ops.size(); ++i)
    {
        if(p.ops[i].task != a->t->id) continue;
        batonWait(a->b, a->t->id);
        execTaskOp(*a->t, p.ops[i]);
        // hand over to whoever owns the next op (or back to main when the plan is over)
        int next = -1; for(size_t k = i + 1; k < p.ops.size(); ++k) { next = p.ops[k].task; break; }
        batonPass(a->b, next);
    }
    return NULL;
}

static inline void runThreaded(const Plan &p, std::vector<TaskCtx> &tasks)
{
    Baton b; b.holder = -2; b.done = 0;
    std::vector<pthread_t> th(tasks.size()); std::vector<ThreadArg> args(tasks.size());
    g_threadedRun = true;
    // all worker threads exist before the first library call and are joined after the last one, so thread
    // creation/join edges do not order library calls of different tasks
    for(size_t k = 0; k < tasks.size(); ++k) { args[k].b = &b; args[k].t = &tasks[k]; args[k].p = &p; pthread_create(&th[k], NULL, taskThread, &args[k]); }
    batonPass(&b, p.ops.empty() ? -1 : p.ops[0].task);
    batonWait(&b, -1);
    for(size_t k = 0; k < tasks.size(); ++k) pthread_join(th[k], NULL);
    g_threadedRun = false;
}

// ---- plan generation ------------------------------------------------------------------------------------
static inline void mtGenerate(Rng &r, Plan &p, bool thorough, bool racePhase)
{
    int nTasks = (int)(thorough ? r.range(2, racePhase ? 8 : 4) : r.range(2, 3));
    p.cfg["tasks"] = nTasks;
    p.cfg["bankseed"] = (int64_t)r.below(1000);
    p.cfg["songseed"] = (int64_t)r.below(1000);
    p.cfg["phase"] = racePhase ? 1 : 0;
    p.cfg["threaded"] = racePhase ? 1 : (int64_t)r.chance(0.5);
    // emulator per task: every core as observer and as interferer (VGM dumper only outside the race phase: it
    // shares the in-memory file system of the harness)
    static const int coresAll[9] = { 0, 1, 2, 3, 4, 5, 6, 7, 8 };
    std::vector<int> emu((size_t)nTasks);
    for(int t = 0; t < nTasks; ++t) { for(;;) { emu[(size_t)t] = coresAll[r.weighted({ 12, 3, 14, 10, 12, 10, 10, racePhase ? 0 : 6, 3 })]; if(!(racePhase && emu[(size_t)t] == 7)) break; } }
    if(r.chance(0.35)) emu[1] = emu[0];   // same core on both sides is where shared static state bites
    else if(r.chance(0.15)) { static const int pairs[6][2] = { { 1, 8 }, { 8, 1 }, { 0, 5 }, { 5, 0 }, { 3, 6 }, { 6, 3 } }; int k = (int)r.below(6); emu[0] = pairs[k][0]; emu[1] = pairs[k][1]; } // sibling cores sharing one code base
    p.cfg["emu0"] = emu[0]; p.cfg["emu1"] = emu[1];
    std::vector<std::vector<Op> > hist((size_t)nTasks);
    // One run in seven is a directed scenario: every task on the same core, chips running at different rates side by side
    // (run-at-PCM-rate / chip family / sample rate differ per task), the observer only pokes settings that write chip
    // registers without re-creating its chips (LFO, volume model, pan law) and plays, while the others keep re-creating theirs.
    if(r.chance(0.15))
    {
        static const int fastCores[6] = { 0, 2, 3, 4, 5, 6 };
        int core = fastCores[r.below(6)]; p.cfg["emu0"] = core; p.cfg["emu1"] = core;
        const bool arpFlavour = r.chance(0.35);   // every task arpeggiates: more notes of one instrument than chip channels, time advancing in all tasks
        p.cfg["scenario"] = arpFlavour ? 2 : 1;
        if(arpFlavour)
        {
            for(int t = 0; t < nTasks; ++t)
            {
                std::vector<Op> &h = hist[(size_t)t];
                h.push_back(Op(A_INIT, (long)r.pick<int>({ 22050, 44100 }))); h.push_back(Op(A_OPEN_BANK_DATA, 1)); h.push_back(Op(A_SWITCH_EMULATOR, core)); h.push_back(Op(A_SET_NUM_CHIPS, 1)); h.push_back(Op(A_SET_AUTO_ARP, 1));
                int notes = (int)r.range(7, 11); for(int q = 0; q < notes; ++q) { Op n(A_NOTE_ON, 0, 40 + q * 2 + (int64_t)t, 110); n.inst = 0; h.push_back(n); }
                int len = (int)r.range(6, 14);
                for(int i = 0; i < len; ++i) { Op o; o.inst = 0; o.kind = (int)r.pick<int>({ A_GENERATE, A_GENERATE, A_GENERATE, A_TICK_EVENTS, A_NOTE_ON, A_NOTE_OFF }); if(o.kind == A_GENERATE) o.a[0] = racePhase ? 64 : (int64_t)r.pick<int>({ 256, 1024, 2048, 4096 }); else if(o.kind == A_TICK_EVENTS) o.d = r.pick<double>({ 0.01, 0.05 }); else { o.a[0] = 0; o.a[1] = (int64_t)r.range(40, 64); o.a[2] = 100; } h.push_back(o); }
            }
        }
        else
        for(int t = 0; t < nTasks; ++t)
        {
            std::vector<Op> &h = hist[(size_t)t];
            long rate = (long)r.pick<int>({ 8000, 22050, 44100, 48000 });
            h.push_back(Op(A_INIT, rate)); h.push_back(Op(A_OPEN_BANK_DATA, (int64_t)r.below(2))); h.push_back(Op(A_SWITCH_EMULATOR, core)); h.push_back(Op(A_SET_NUM_CHIPS, (int64_t)r.range(1, 2)));
            if(t == 0 ? r.chance(0.2) : r.chance(0.7)) h.push_back(Op(A_SET_RUN_AT_PCM_RATE, 1));
            if(r.chance(0.4)) h.push_back(Op(A_SET_CHIP_TYPE, (int64_t)r.below(2)));
            int len = (int)r.range(8, 18);
            for(int i = 0; i < len; ++i)
            {
                Op o; o.inst = 0;
                if(t == 0) o.kind = (int)r.pick<int>({ A_SET_LFO_ENABLED, A_SET_LFO_FREQ, A_SET_LFO_FREQ, A_SET_VOLUME_MODEL, A_SET_SOFT_PAN, A_NOTE_ON, A_NOTE_ON, A_NOTE_OFF, A_GENERATE, A_GENERATE, A_CONTROLLER, A_PATCH, A_PITCH_BEND });
                else o.kind = (int)r.pick<int>({ A_RESET, A_SWITCH_EMULATOR, A_SET_NUM_CHIPS, A_SET_RUN_AT_PCM_RATE, A_SET_CHIP_TYPE, A_OPEN_BANK_DATA, A_NOTE_ON, A_GENERATE, A_SET_LFO_FREQ });
                switch(o.kind)
                {
                case A_SET_LFO_ENABLED: o.a[0] = r.chance(0.8); break;
                case A_SET_LFO_FREQ: o.a[0] = (int64_t)r.range(0, 7); break;
                case A_SET_VOLUME_MODEL: o.a[0] = (int64_t)r.range(0, 5); break;
                case A_SET_SOFT_PAN: case A_SET_RUN_AT_PCM_RATE: case A_SET_CHIP_TYPE: case A_OPEN_BANK_DATA: o.a[0] = (int64_t)r.below(2); break;
                case A_NOTE_ON: o.a[0] = (int64_t)r.below(4); o.a[1] = (int64_t)r.range(40, 80); o.a[2] = (int64_t)r.range(80, 127); break;
                case A_NOTE_OFF: o.a[0] = (int64_t)r.below(4); o.a[1] = (int64_t)r.range(40, 80); break;
                case A_CONTROLLER: o.a[0] = (int64_t)r.below(4); o.a[1] = r.pick<int>({ 7, 10, 11, 1 }); o.a[2] = (int64_t)r.below(128); break;
                case A_PATCH: o.a[0] = (int64_t)r.below(4); o.a[1] = (int64_t)r.below(128); break;
                case A_PITCH_BEND: o.a[0] = (int64_t)r.below(4); o.a[1] = (int64_t)r.below(16384); break;
                case A_GENERATE: o.a[0] = racePhase ? 64 : (int64_t)r.pick<int>({ 512, 1024, 2048 }); break;
                case A_SWITCH_EMULATOR: o.a[0] = core; break;
                case A_SET_NUM_CHIPS: o.a[0] = (int64_t)r.range(1, 2); break;
                default: break;
                }
                h.push_back(o);
            }
        }
    }
    else
    for(int t = 0; t < nTasks; ++t)
    {
        std::vector<Op> &h = hist[(size_t)t];
        bool slow = emu[(size_t)t] == 1 || emu[(size_t)t] == 8;
        long rate = (long)r.pick<int>({ 8000, 22050, 44100 }); if(racePhase && slow) rate = 44100;   // native-rate cores resample: low rates mean many chip clocks per frame
        h.push_back(Op(A_INIT, rate));
        h.push_back(Op(A_OPEN_BANK_DATA, (int64_t)r.below(2)));
        h.push_back(Op(A_SWITCH_EMULATOR, emu[(size_t)t]));
        h.push_back(Op(A_SET_NUM_CHIPS, (int64_t)r.range(1, slow ? 1 : 3)));
        if(!slow && r.chance(0.3)) h.push_back(Op(A_SET_RUN_AT_PCM_RATE, 1));   // chips of one core running at different rates side by side: rate-derived tables must be per chip
        int len = (int)r.range(6, thorough ? 40 : (racePhase ? 14 : 22));
        for(int i = 0; i < len; ++i)
        {
            Op o; o.kind = (int)r.pick<int>({ A_NOTE_ON, A_NOTE_ON, A_NOTE_ON, A_NOTE_OFF, A_CONTROLLER, A_GENERATE, A_GENERATE, A_GENERATE, A_PLAY, A_TICK_EVENTS, A_OPEN_DATA, A_RESET, A_SWITCH_EMULATOR, A_CLOSE, A_INIT, A_OPEN_BANK_DATA, A_GETTERS, A_SET_CHIP_TYPE, A_SET_RUN_AT_PCM_RATE, A_PITCH_BEND, (int)MT_NULLDEV, A_SET_LFO_ENABLED, A_SET_LFO_FREQ });
            // one op in five is a setting or transport call that touches an existing chip/sequencer without re-creating it
            if(r.chance(0.2)) o.kind = (int)r.pick<int>({ A_SET_LFO_ENABLED, A_SET_LFO_FREQ, A_SET_LFO_ENABLED, A_SET_LFO_FREQ, A_SET_VOLUME_MODEL, A_SET_SOFT_PAN, A_SET_SCALE_MOD, A_SET_FULL_BRIGHT, A_SET_AUTO_ARP,
                                                      A_SET_CHAN_ALLOC, A_PATCH, A_PANIC, A_SEEK, A_REWIND, A_SET_TEMPO, A_SYSEX, A_BANK_MSB, A_BANK_LSB, A_SET_LOOP_ENABLED, A_SELECT_SONG, A_RT_RESET_STATE, A_CHAN_AFTERTOUCH });
            o.inst = (int)r.below(2);
            switch(o.kind)
            {
            case A_SET_LFO_ENABLED: case A_SET_SOFT_PAN: case A_SET_SCALE_MOD: case A_SET_FULL_BRIGHT: case A_SET_AUTO_ARP: case A_SET_LOOP_ENABLED: o.a[0] = (int64_t)r.below(2); break;
            case A_SET_LFO_FREQ: o.a[0] = (int64_t)r.range(-1, 7); break;
            case A_SET_VOLUME_MODEL: o.a[0] = (int64_t)r.range(0, 5); break;
            case A_SET_CHAN_ALLOC: o.a[0] = (int64_t)r.range(-1, 2); break;
            case A_PATCH: case A_BANK_MSB: case A_BANK_LSB: case A_CHAN_AFTERTOUCH: o.a[0] = (int64_t)r.below(16); o.a[1] = (int64_t)r.below(128); break;
            case A_SEEK: o.d = r.real(0.0, 3.0); break;
            case A_SET_TEMPO: o.d = r.pick<double>({ 0.5, 1.0, 2.0 }); break;
            case A_SYSEX: o.blob = genSysEx(r); break;
            case A_SELECT_SONG: o.a[0] = (int64_t)r.below(2); break;
            case A_NOTE_ON: o.a[0] = (int64_t)r.below(16); o.a[1] = (int64_t)r.range(36, 90); o.a[2] = (int64_t)r.range(40, 127); break;
            case A_NOTE_OFF: o.a[0] = (int64_t)r.below(16); o.a[1] = (int64_t)r.range(36, 90); break;
            case A_CONTROLLER: o.a[0] = (int64_t)r.below(16); o.a[1] = r.pick<int>({ 7, 10, 11, 64, 1 }); o.a[2] = (int64_t)r.below(128); break;
            case A_PITCH_BEND: o.a[0] = (int64_t)r.below(16); o.a[1] = (int64_t)r.below(16384); break;
            case A_GENERATE: case A_PLAY: o.a[0] = racePhase ? (int64_t)r.pick<int>({ 2, 32, 64, 128, slow ? 64 : 512 })   // TSan costs ~10x: the racing accesses sit in init and in the first frames
                                                          : (int64_t)r.pick<int>({ 2, 128, 512, 1024, 1026, slow ? 512 : 4096 }); break;
            case A_TICK_EVENTS: o.d = r.pick<double>({ 0.0, 0.01, 0.1 }); break;
            case A_OPEN_DATA: o.a[0] = (int64_t)r.below(2); break;
            case A_SWITCH_EMULATOR: o.a[0] = r.chance(0.7) ? emu[(size_t)t] : coresAll[r.weighted({ 3, 1, 3, 2, 2, 2, 2, racePhase ? 0 : 1, 1 })]; break;
            case A_INIT: o.a[0] = rate; break;
            case A_OPEN_BANK_DATA: o.a[0] = (int64_t)r.below(2); break;
            case A_SET_CHIP_TYPE: o.a[0] = (int64_t)r.range(-1, 1); break;
            case A_SET_RUN_AT_PCM_RATE: o.a[0] = (int64_t)r.below(2); break;
            default: break;
            }
            // after a close/init the freshly created instance needs a bank and the task's core again
            h.push_back(o);
            if(o.kind == A_INIT) { Op b(A_OPEN_BANK_DATA, (int64_t)r.below(2)); b.inst = 1; h.push_back(b); Op e(A_SWITCH_EMULATOR, emu[(size_t)t]); e.inst = 1; h.push_back(e); }
        }
    }
    // seeded interleaving, biased so that one task's init/switchEmulator/reset/close lands between two renders of another
    std::vector<size_t> pos((size_t)nTasks, 0); size_t left = 0; for(int t = 0; t < nTasks; ++t) left += hist[(size_t)t].size();
    int cur = 0;
    while(left)
    {
        std::vector<int> w((size_t)nTasks, 0);
        for(int t = 0; t < nTasks; ++t) if(pos[(size_t)t] < hist[(size_t)t].size())
        {
            int kind = hist[(size_t)t][pos[(size_t)t]].kind; int wt = 10;
            bool heavy = kind == A_INIT || kind == A_SWITCH_EMULATOR || kind == A_RESET || kind == A_CLOSE || kind == A_OPEN_BANK_DATA || kind == A_SET_CHIP_TYPE;
            if(heavy && t != cur) wt = 40;      // interferer's heavy call gets priority right after the other's render
            if(t == cur) wt = 6;                // a little run-length so renders of one task come in pairs
            w[(size_t)t] = wt;
        }
        int t = (int)r.weighted(w);
        Op o = hist[(size_t)t][pos[(size_t)t]++]; o.task = t; p.ops.push_back(o); cur = t; --left;
    }
}

} // namespace sim
