// SimFS: in-memory replacement for the stdio calls the library makes (FileAndMemReader and the
// VGM dumper), installed with -Wl,--wrap=fopen,... on the final link. Fake FILE* handles never
// reach libc. Faults are attached per open by the plan (see DESIGN.md 1.4) and each fault kind
// counts when it actually *fires*.
#pragma once
#include <cstdio>
#include <cstdarg>
#include <cerrno>
#include <cstring>
#include <string>
#include <vector>
#include <map>
#include <set>
#include "plan.hpp"

namespace sim {

enum FsFault
{
    FS_NOENT = 1,       // fopen -> NULL
    FS_SHORTREAD = 2,   // the fread crossing offset arg returns only the bytes before it (once)
    FS_READERR = 3,     // fread returns 0 from offset arg on
    FS_SEEKFAIL = 4,    // fseek returns -1, does not move
    FS_TELLFAIL = 5,    // ftell returns -1
    FS_WRITEFULL = 6,   // fwrite short after arg bytes
    FS_OPENWFAIL = 7,   // fopen(...,"w") -> NULL
    // storage faults, applied to the stored image by applyStorageFaults()
    FS_TRUNCATE = 20,   // image cut to arg bytes
    FS_BITFLIP = 21,    // byte at arg ^= arg2
    FS_SPLICE = 22      // bytes [arg, arg+arg2&0xff) overwritten with pattern derived from arg2
};

static inline const char *fsFaultName(int k)
{
    switch(k)
    {
    case FS_NOENT: return "noent"; case FS_SHORTREAD: return "shortread"; case FS_READERR: return "readerr";
    case FS_SEEKFAIL: return "seekfail"; case FS_TELLFAIL: return "tellfail"; case FS_WRITEFULL: return "writefull";
    case FS_OPENWFAIL: return "openwfail"; case FS_TRUNCATE: return "truncate"; case FS_BITFLIP: return "bitflip";
    case FS_SPLICE: return "splice"; default: return "none";
    }
}

struct SimHandle
{
    unsigned magic;
    std::string name;
    std::vector<uint8_t> data;
    size_t pos;
    bool write, eof, err;
    std::vector<Fault> faults;
    bool shortDone;
};

struct SimFS
{
    bool active;
    std::map<std::string, std::vector<uint8_t> > files;
    std::set<SimHandle *> handles;
    std::vector<Fault> nextOpenFaults;
    std::map<std::string, uint64_t> fired;
    uint64_t opens, reads, writes, bytesWritten;
    SimFS() : active(false), opens(0), reads(0), writes(0), bytesWritten(0) {}
    void reset()
    {
        for(std::set<SimHandle *>::iterator it = handles.begin(); it != handles.end(); ++it) delete *it;
        handles.clear(); files.clear(); nextOpenFaults.clear(); fired.clear();
        opens = reads = writes = bytesWritten = 0;
    }
    SimHandle *get(FILE *f)
    {
        SimHandle *h = reinterpret_cast<SimHandle *>(f);
        return handles.count(h) ? h : NULL;
    }
    const Fault *find(SimHandle *h, int kind)
    {
        for(size_t i = 0; i < h->faults.size(); ++i) if(h->faults[i].kind == kind) return &h->faults[i];
        return NULL;
    }
};
static SimFS g_fs;

struct SimFsScope
{
    bool prev;
    SimFsScope() : prev(g_fs.active) { g_fs.active = true; }
    ~SimFsScope() { g_fs.active = prev; }
};

static inline void applyStorageFaults(std::vector<uint8_t> &img, const std::vector<Fault> &faults, std::map<std::string, uint64_t> *fired)
{
    for(size_t i = 0; i < faults.size(); ++i)
    {
        const Fault &f = faults[i];
        if(f.kind == FS_TRUNCATE)
        {
            if((size_t)f.arg < img.size()) { img.resize((size_t)f.arg); if(fired) (*fired)["truncate"]++; }
        }
        else if(f.kind == FS_BITFLIP)
        {
            if(!img.empty()) { img[(size_t)f.arg % img.size()] ^= (uint8_t)(f.arg2 ? f.arg2 : 1); if(fired) (*fired)["bitflip"]++; }
        }
        else if(f.kind == FS_SPLICE)
        {
            if(!img.empty())
            {
                size_t n = (size_t)(f.arg2 & 0xff) + 1, at = (size_t)f.arg % img.size();
                uint64_t x = (uint64_t)f.arg2 * 0x9E3779B97F4A7C15ull + 1;
                for(size_t k = 0; k < n && at + k < img.size(); ++k) { x ^= x << 13; x ^= x >> 7; x ^= x << 17; img[at + k] = (uint8_t)(x >> 24); }
                if(fired) (*fired)["splice"]++;
            }
        }
    }
}

} // namespace sim

extern "C" {
FILE *__real_fopen(const char *, const char *);
int __real_fclose(FILE *);
size_t __real_fread(void *, size_t, size_t, FILE *);
size_t __real_fwrite(const void *, size_t, size_t, FILE *);
int __real_fseek(FILE *, long, int);
long __real_ftell(FILE *);
int __real_feof(FILE *);
int __real_fflush(FILE *);
int __real_fputc(int, FILE *);
int __real_printf(const char *, ...);

FILE *__wrap_fopen(const char *path, const char *mode)
{
    using namespace sim;
    if(!g_fs.active) return __real_fopen(path, mode);
    ++g_fs.opens;
    bool wr = mode && (strchr(mode, 'w') || strchr(mode, 'a'));
    std::vector<Fault> faults; faults.swap(g_fs.nextOpenFaults);
    for(size_t i = 0; i < faults.size(); ++i)
    {
        if(!wr && faults[i].kind == FS_NOENT) { g_fs.fired["noent"]++; errno = ENOENT; return NULL; }
        if(wr && faults[i].kind == FS_OPENWFAIL) { g_fs.fired["openwfail"]++; errno = EACCES; return NULL; }
    }
    std::string name = path ? path : "";
    if(!wr && !g_fs.files.count(name)) { errno = ENOENT; return NULL; }   // like libc: a failing call says why (callers print strerror(errno))
    SimHandle *h = new SimHandle;
    h->magic = 0x51F5; h->name = name; h->pos = 0; h->write = wr; h->eof = false; h->err = false; h->shortDone = false;
    h->faults = faults;
    if(!wr) h->data = g_fs.files[name];
    g_fs.handles.insert(h);
    return reinterpret_cast<FILE *>(h);
}

int __wrap_fclose(FILE *f)
{
    using namespace sim;
    SimHandle *h = g_fs.get(f);
    if(!h) return __real_fclose(f);
    if(h->write) g_fs.files[h->name] = h->data;
    g_fs.handles.erase(h);
    delete h;
    return 0;
}

size_t __wrap_fread(void *buf, size_t size, size_t n, FILE *f)
{
    using namespace sim;
    SimHandle *h = g_fs.get(f);
    if(!h) return __real_fread(buf, size, n, f);
    ++g_fs.reads;
    if(size == 0 || n == 0) return 0;
    size_t want = size * n;
    if(size != 0 && want / size != n) want = (size_t)-1; // overflow: treat as "everything"
    size_t avail = h->pos < h->data.size() ? h->data.size() - h->pos : 0;
    size_t take = want < avail ? want : avail;
    const Fault *re = g_fs.find(h, FS_READERR);
    if(re && h->pos + take > (size_t)re->arg)
    {
        size_t lim = (size_t)re->arg > h->pos ? (size_t)re->arg - h->pos : 0;
        take = lim; h->err = true; g_fs.fired["readerr"]++; errno = EIO;
    }
    const Fault *sr = g_fs.find(h, FS_SHORTREAD);
    if(sr && !h->shortDone && h->pos <= (size_t)sr->arg && h->pos + take > (size_t)sr->arg)
    {
        take = (size_t)sr->arg - h->pos; h->shortDone = true; g_fs.fired["shortread"]++;
    }
    if(take < want && !h->err && take == avail) h->eof = true;
    if(take) memcpy(buf, h->data.data() + h->pos, take);
    h->pos += take;
    return take / size;
}

size_t __wrap_fwrite(const void *buf, size_t size, size_t n, FILE *f)
{
    using namespace sim;
    SimHandle *h = g_fs.get(f);
    if(!h) return __real_fwrite(buf, size, n, f);
    ++g_fs.writes;
    size_t want = size * n;
    const Fault *wf = g_fs.find(h, FS_WRITEFULL);
    if(wf && g_fs.bytesWritten + want > (size_t)wf->arg)
    {
        want = (size_t)wf->arg > g_fs.bytesWritten ? (size_t)wf->arg - g_fs.bytesWritten : 0;
        g_fs.fired["writefull"]++; h->err = true; errno = ENOSPC;
    }
    if(h->pos + want > h->data.size()) h->data.resize(h->pos + want);
    if(want) memcpy(h->data.data() + h->pos, buf, want);
    h->pos += want; g_fs.bytesWritten += want;
    return size ? want / size : 0;
}

int __wrap_fseek(FILE *f, long off, int whence)
{
    using namespace sim;
    SimHandle *h = g_fs.get(f);
    if(!h) return __real_fseek(f, off, whence);
    if(g_fs.find(h, FS_SEEKFAIL)) { g_fs.fired["seekfail"]++; errno = ESPIPE; return -1; }
    long base = whence == SEEK_SET ? 0 : (whence == SEEK_CUR ? (long)h->pos : (long)h->data.size());
    long np = base + off;
    if(np < 0) { errno = EINVAL; return -1; }   // like libc
    h->pos = (size_t)np; h->eof = false;
    return 0;
}

long __wrap_ftell(FILE *f)
{
    using namespace sim;
    SimHandle *h = g_fs.get(f);
    if(!h) return __real_ftell(f);
    if(g_fs.find(h, FS_TELLFAIL)) { g_fs.fired["tellfail"]++; errno = ESPIPE; return -1; }
    return (long)h->pos;
}

int __wrap_feof(FILE *f)
{
    using namespace sim;
    SimHandle *h = g_fs.get(f);
    if(!h) return __real_feof(f);
    return h->eof ? 1 : 0;
}

int __wrap_fflush(FILE *f)
{
    using namespace sim;
    if(f && g_fs.get(f)) return 0;
    if(g_fs.active && f == stdout) return 0;
    return __real_fflush(f);
}

int __wrap_fputc(int c, FILE *f)
{
    using namespace sim;
    SimHandle *h = g_fs.get(f);
    if(!h) return __real_fputc(c, f);
    unsigned char b = (unsigned char)c;
    return __wrap_fwrite(&b, 1, 1, f) == 1 ? c : EOF;
}

// ---- allocation seam for the library's C allocations (malloc/calloc/realloc from the library objects).
// Requests no machine can serve (>= 2^40 bytes, e.g. malloc((size_t)-1) after a failed ftell) return NULL as
// libc would; requests above the proportionality budget but below that are recorded as a violation of
// "memory proportional to the input" and refused; everything else goes to the (sanitizer's) allocator.
void *__real_malloc(size_t);
void *__real_calloc(size_t, size_t);
void *__real_realloc(void *, size_t);
}
namespace sim {
struct AllocSeam { size_t budget; size_t hugeRequest; uint64_t impossibleRequests; AllocSeam() : budget((size_t)320 << 20), hugeRequest(0), impossibleRequests(0) {} };
static AllocSeam g_alloc;
static inline bool allocRefuse(size_t n)
{
    if(!g_fs.active) return false;
    if(n >= ((size_t)1 << 40)) { ++g_alloc.impossibleRequests; return true; }
    if(n > g_alloc.budget) { if(!g_alloc.hugeRequest) g_alloc.hugeRequest = n; return true; }
    return false;
}
}
extern "C" {
void *__wrap_malloc(size_t n) { if(sim::allocRefuse(n)) return NULL; return __real_malloc(n); }
void *__wrap_calloc(size_t a, size_t b) { if(b && a > ((size_t)-1) / b) return NULL; if(sim::allocRefuse(a * b)) return NULL; return __real_calloc(a, b); }
void *__wrap_realloc(void *p, size_t n) { if(sim::allocRefuse(n)) return NULL; return __real_realloc(p, n); }

// the VGM dumper prints progress lines on stdout; swallow them while the simulation is active
int __wrap_printf(const char *fmt, ...)
{
    using namespace sim;
    if(g_fs.active) return 0;
    va_list ap; va_start(ap, fmt);
    int r = vprintf(fmt, ap);
    va_end(ap);
    return r;
}
} // extern "C"
