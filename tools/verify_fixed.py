#!/usr/bin/env python3
# tools/verify_fixed.py [--normalise]
# For every `status: fixed` entry of known_findings.jsonl: check out the parent of its fix: commit in a scratch worktree
# (/tmp/vm/repo, never /repo), point an isolated copy of the machinery at it (VERIF_REPO) and replay the recorded plan:
# the replay must report a violation there, and must be clean on /repo's HEAD. Writes seeded/fixed_replays.json.
import json, os, subprocess, sys
ROOT = os.path.dirname(os.path.dirname(os.path.abspath(__file__)))
VM = os.environ.get('VERIF_VM', '/tmp/vm')
def sh(cmd, **kw): return subprocess.run(cmd, shell=True, capture_output=True, text=True, **kw)
log = sh("git -C /repo log --format='%h\t%s'").stdout.splitlines()
commits = [l.split('\t', 1) for l in log]
def resolve(c):
    for h, s in commits:
        if c == h or h.startswith(c) or c.startswith(h): return h
    for h, s in commits:
        if s.startswith(c) or c in s: return h
    return None
ents = [json.loads(l) for l in open(os.path.join(ROOT, 'known_findings.jsonl')) if l.strip()]
if '--normalise' in sys.argv:
    for e in ents:
        if e.get('status') == 'fixed':
            h = resolve(e.get('commit', ''))
            if h: e['commit'] = h
    open(os.path.join(ROOT, 'known_findings.jsonl'), 'w').write(''.join(json.dumps(e) + '\n' for e in ents))
    print('normalised'); sys.exit(0)
os.makedirs(VM, exist_ok=True)
sh(f"rsync -a --delete --exclude build --exclude evidence --exclude .git --exclude seeded {ROOT}/ {VM}/verif/")
if not os.path.isdir(f"{VM}/repo"): sh(f"git -C /repo worktree add --detach {VM}/repo HEAD")
head = sh("git -C /repo rev-parse HEAD").stdout.strip()
res = []
for e in ents:
    if e.get('status') != 'fixed' or not e.get('replay'): continue
    h = resolve(e.get('commit', ''))
    r = {'property': e['property'], 'commit': h, 'replay': e['replay'], 'class': e['tag'] + '|' + e['sig']}
    if not h: r['result'] = 'commit not found'; res.append(r); print(r); continue
    sh(f"git -C {VM}/repo checkout -q -- . ; git -C {VM}/repo checkout -q --detach {h}^")
    o = sh(f"cd {VM}/verif && VERIF_REPO={VM}/repo ./check {e['property']} --replay {e['replay']}")
    cls = [l for l in o.stdout.splitlines() if l.startswith('REPLAY')]
    r['before_fix_rc'] = o.returncode; r['before_fix'] = (cls[0][:200] if cls else o.stdout[-200:])
    r['fails_before_fix'] = o.returncode == 1
    r['same_class'] = bool(cls) and (e['tag'] + '|') in cls[0]
    res.append(r); print(json.dumps(r)); sys.stdout.flush()
sh(f"git -C {VM}/repo checkout -q -- . ; git -C {VM}/repo checkout -q --detach {head}")
json.dump(res, open(os.path.join(ROOT, 'seeded', 'fixed_replays.json'), 'w'), indent=1)
print("%d fixed entries, %d fail before their fix, %d in the recorded class" % (len(res), sum(1 for r in res if r.get('fails_before_fix')), sum(1 for r in res if r.get('same_class'))))
