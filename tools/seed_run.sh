#!/bin/bash
# tools/seed_run.sh <Cnn-k> [check ids...]   (default: the target property's check)
# Runs quick checks against a seeded regression WITHOUT touching /repo: a scratch worktree of /repo's HEAD gets the
# patch, an isolated copy of the /verif machinery (own build dir) is pointed at it with VERIF_REPO.
# (The documented way for a single run is: git -C /repo apply seeded/<id>/patch.diff; ./check <id> quick; git -C /repo checkout -- .)
# Result: seeded/<Cnn-k>/results.json  {check: {rc, seconds, classes[]}}
S=$1; shift; ROOT=$(cd "$(dirname "$0")/.." && pwd); D=$ROOT/seeded/$S
[ -f "$D/patch.diff" ] || { echo "no $D/patch.diff"; exit 2; }
TARGET=$(echo ${S%%-*} | cut -c1-3); CHECKS="$@"; [ -n "$CHECKS" ] || CHECKS=$TARGET
VM=${VERIF_VM:-/tmp/vm}; mkdir -p $VM
exec 7>$VM/.lock; flock 7
rsync -a --delete --exclude build --exclude evidence --exclude replays --exclude seeded --exclude .git "$ROOT/" $VM/verif/
mkdir -p $VM/verif/evidence $VM/verif/replays
if [ ! -d $VM/repo ]; then git -C /repo worktree add --detach $VM/repo HEAD >/dev/null 2>&1; fi
git -C $VM/repo checkout -q --detach $(git -C /repo rev-parse HEAD) && git -C $VM/repo checkout -q -- . 
git -C $VM/repo apply "$D/patch.diff" || { echo "$S: patch does not apply to /repo HEAD"; exit 2; }
for C in $CHECKS; do
  T0=$(date +%s)
  OUT=$(cd $VM/verif && VERIF_REPO=$VM/repo VERIF_SEED=${VERIF_SEED:-1} ./check $C ${TIER:-quick} 2>&1); RC=$?
  T1=$(date +%s)
  echo "$OUT" > $VM/last.$S.$C.log
  python3 - "$D/results.json" "$C" "$RC" "$((T1-T0))" "$VM/last.$S.$C.log" "${TIER:-quick}" <<'PY'
import json,sys,re,os
f,c,rc,sec,log,tier=sys.argv[1:7]
try: r=json.load(open(f))
except Exception: r={}
txt=open(log).read()
classes=sorted(set(re.findall(r'class=([^\n]*?) runs=',txt)))+sorted(set(re.findall(r'violation class ([^\n]*?) \(',txt)))
r[c]={'rc':int(rc),'seconds':int(sec),'tier':tier,'caught':int(rc)==1 and 'VIOLATION property=' in txt,'classes':classes[:8]}
json.dump(r,open(f,'w'),indent=1)
print("%s vs %s: rc=%s %ss %s" % (os.path.basename(os.path.dirname(f)),c,rc,sec,'; '.join(classes[:3])[:300]))
PY
done
git -C $VM/repo checkout -q -- .
