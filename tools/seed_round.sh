#!/bin/bash
# tools/seed_round.sh <Cnnr3>     confirm both delivered changes of one sub-agent, then run the target check against each
# (own scratch VM dir per property so several of these can run side by side)
ID=$1; ROOT=$(cd "$(dirname "$0")/.." && pwd)
for K in 1 2; do
  "$ROOT/tools/seed_confirm.sh" $ID $K || continue
  VERIF_VM=/tmp/vm_$ID "$ROOT/tools/seed_run.sh" $ID-$K
done
[ -d /tmp/vm_$ID/repo ] && git -C /repo worktree remove --force /tmp/vm_$ID/repo
rm -rf /tmp/vm_$ID
