#!/usr/bin/env python3
# Generates /verif/MANIFEST.json from the table below (kept in one place so it is always valid).
import json, os, subprocess
ROOT = os.path.dirname(os.path.dirname(os.path.abspath(__file__)))
props = [json.loads(l) for l in open(os.path.join(ROOT, 'properties.jsonl'))]
ids = [p['id'] for p in props]

# id -> (level text, level note, technique, design_ref)
built = {}
def add(i, text, note, tech, ref):
    built[i] = (text, note, tech, ref)

execfile_path = os.path.join(ROOT, 'tools', 'manifest_table.py')
exec(open(execfile_path).read())

hooks = subprocess.run(['git', '-C', '/repo', 'log', '--format=%H %s'], capture_output=True, text=True).stdout.splitlines()
hook_commits = [l.split()[0] for l in hooks if 'verif hook' in l]

checks = []
for i in ids:
    if i not in built: continue
    text, note, tech, ref = built[i]
    checks.append({
        "property_id": i,
        "quick_cmd": "./check %s quick" % i,
        "thorough_cmd": "./check %s thorough" % i,
        "evidence_file": "/verif/evidence/%s.json" % i,
        "replay_cmd_template": "./check %s --replay {path}" % i,
        "engine": "detsim",
        "level_claimed": {"category": "exploration", "text": text, "design_ref": ref},
        "level_note": note,
        "technique": tech,
    })
na = [{"property_id": i, "reason": not_applicable.get(i, "check not built yet (work in progress in this session); no claim is made")} for i in ids if i not in built]
m = {
    "version": 1,
    "setup_cmd": "./setup.sh",
    "hooks": {
        "guard": "OPNMIDI_VERIF",
        "enable": "build.sh compiles /repo's sources with -DOPNMIDI_VERIF (plus the shipped -DENABLE_END_SILENCE_SKIPPING -DOPNMIDI_MIDI2VGM -DNDEBUG) into /verif/build/<variant>/libopn.a; stdio is replaced at link time with -Wl,--wrap (no repo change)",
        "baseline_off_cmd": "cmake -G Ninja -S /repo -B /repo/_build -DWITH_UNIT_TESTS=ON >/dev/null && cmake --build /repo/_build && ctest --test-dir /repo/_build -j8 --timeout 900",
        "source_commits": hook_commits,
        "add_only": True,
    },
    "engines": [{"name": "detsim", "path": "/verif/sim", "serves_properties": sorted(built.keys()),
                 "kind_free_text": "deterministic simulation with fault injection: seeded plans (ops + time slicing + task interleaving + storage/stdio faults) executed against the real library in forked workers under ASan/TSan, reference-model oracles, ddmin minimisation, replay files"}],
    "checks": checks,
    "not_applicable": na,
    "notes": "Exit 0 = held on everything explored; exit 1 + 'VIOLATION property=<id> replay=<path>' = violation; 'KNOWN-FINDING: property=<id> ...' lines for entries of /verif/known_findings.jsonl with status=known (exit 0); exit 2 = harness error (non-deterministic replay, build failure). VERIF_SEED selects the batch seed; VERIF_WORKERS the worker count (default 16).",
}
json.dump(m, open(os.path.join(ROOT, 'MANIFEST.json'), 'w'), indent=1)
print("MANIFEST.json: %d checks, %d not_applicable" % (len(checks), len(na)))
