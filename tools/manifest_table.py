# table used by gen_manifest.py
not_applicable = {}
add("C03",
    "Seeded search over API call histories (10..400 calls, boundary-class arguments, 9 emulator ids, chips 1..100, rates 8k..192k) executed against the real library; oracle = ASan + -fsanitize=bounds on the core sources + abort/terminate handlers + CPU watchdog + the header's documented failure returns. Evidence, not proof: a clean batch means no violation in the sampled histories.",
    "Trusts ASan/UBSan-bounds to see out-of-bounds accesses (far out-of-bounds into another live allocation can be missed by ASan; the bounds instrumentation covers the fixed-size tables of the core sources). Emulator cores are not UBSan-instrumented (pervasive benign shift UB). Tempo multipliers above 16 are excluded (cost, not termination).",
    "deterministic simulation: seeded API histories, sanitizer/termination oracle", "DESIGN.md 2/C03")
