# table used by gen_manifest.py
not_applicable = {}
add("C03",
    "Seeded search over API call histories (10..400 calls, boundary-class arguments, 9 emulator ids, chips 1..100, rates 8k..192k) executed against the real library; oracle = ASan + -fsanitize=bounds on the core sources + abort/terminate handlers + CPU watchdog + the header's documented failure returns. Evidence, not proof: a clean batch means no violation in the sampled histories.",
    "Trusts ASan/UBSan-bounds to see out-of-bounds accesses (far out-of-bounds into another live allocation can be missed by ASan; the bounds instrumentation covers the fixed-size tables of the core sources). Emulator cores are not UBSan-instrumented (pervasive benign shift UB). Tempo multipliers above 16 are excluded (cost, not termination).",
    "deterministic simulation: seeded API histories, sanitizer/termination oracle", "DESIGN.md 2/C03")
add("C04",
    "Seeded search over real-time/sequencer histories on a small alphabet (<=3 MIDI channels, <=6 keys, 1-2 chips) with pedals, arpeggio, bank reloads, chip-count/emulator/chip-type changes and scheduler-chosen time slices; after every call the structural invariants I0-I6 (note<->user links both ways, no duplicates, list sizes, glide/TTL counters, instrument pointer inside a loaded bank, chip key state from the register tap == has-users) are evaluated on the live state. The property's 'exhaustive for short sequences' is NOT discharged (that would be model checking); reach is reported as distinct occupancy patterns.",
    "Internal state is read through the guarded friend hook H1 and the register tap H2; the invariants are the property's own clauses. Instrument-pointer check walks the live bank map.",
    "deterministic simulation: seeded histories + time slicing, state invariants after every step", "DESIGN.md 2/C04")
add("C05",
    "Seeded search over note/pedal/sostenuto/CC120-123/panic/reset-state/program/time histories; a reference model written from the MIDI rules of the property predicts the sounding set after every call and is compared with {users of keyed-on chip channels}; every run ends with the bounded-liveness epilogue (release all, render 30 ms, nothing keyed on).",
    "Executor keeps polyphony below the channel count (property precondition) by skipping note-ons the model says would exceed it; auto-arpeggio off; epilogue renders 30 ms + 2 frames.",
    "deterministic simulation: seeded histories + time slicing, reference-model comparison + bounded liveness", "DESIGN.md 2/C05")
