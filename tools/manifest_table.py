# table used by gen_manifest.py
not_applicable = {}
add("C03",
    "Seeded search over API call histories (10..400 calls, boundary-class arguments, 9 emulator ids, chips 1..100, rates 8k..192k) executed against the real library; oracle = ASan + -fsanitize=bounds on the core sources + abort/terminate handlers + CPU watchdog + the header's documented failure returns. Evidence, not proof: a clean batch means no violation in the sampled histories.",
    "Trusts ASan/UBSan-bounds to see out-of-bounds accesses (far out-of-bounds into another live allocation can be missed by ASan; the bounds instrumentation covers the fixed-size tables of the core sources). Emulator cores are not UBSan-instrumented (pervasive benign shift UB). Tempo multipliers above 16 are excluded (cost, not termination).",
    "deterministic simulation: seeded API histories, sanitizer/termination oracle", "DESIGN.md 2/C03")
add("C04",
    "Seeded search over real-time/sequencer histories on a small alphabet (<=3 MIDI channels, <=6 keys, 1-2 chips) with pedals, arpeggio, bank reloads, chip-count/emulator/chip-type changes and scheduler-chosen time slices; after every call the structural invariants I0-I6 (note<->user links both ways, no duplicates, list sizes, glide/TTL counters, instrument pointer inside a loaded bank, chip key state from the register tap == has-users) are evaluated on the live state. The property's 'exhaustive for short sequences' is NOT discharged (that would be model checking); reach is reported as distinct occupancy patterns.",
    "Internal state is read through the guarded friend hook H1 and the register tap H2; the invariants are the property's own clauses. Instrument-pointer check walks the live bank map.",
    "deterministic simulation: seeded histories + time slicing, state invariants after every step", "DESIGN.md 2/C04")
add("C05",
    "Seeded search over note/pedal/sostenuto/CC120-123/panic/reset-state/program/time histories; a reference model written from the MIDI rules of the property predicts the sounding set after every call and is compared with {users of keyed-on chip channels}; every run ends with the bounded-liveness epilogue (release all, render 30 ms, nothing keyed on).",
    "Executor keeps polyphony below the channel count (property precondition) by skipping note-ons the model says would exceed it; auto-arpeggio off; epilogue renders 30 ms + 2 frames.",
    "deterministic simulation: seeded histories + time slicing, reference-model comparison + bounded liveness", "DESIGN.md 2/C05")
add("C06",
    "Seeded search over long note/pedal histories (time advances up to 30 s each, 10 simulated minutes, chips 1..8, four allocation modes, arpeggio on/off); the H1 snapshots before and after every accepted note-on are related: with an idle channel the note lands on a channel without (other) users and no bystander's (location, channel, sustain bits) changes; with none idle a held-only channel is taken before a key-down one.",
    "A key re-struck while sounding frees its own channel inside the call; that channel counts as free. Beyond 10 simulated minutes of a key held down the ageing arithmetic of the scorer is not claimed (the property bounds histories at 10 minutes).",
    "deterministic simulation: seeded histories + time slicing, before/after state relation", "DESIGN.md 2/C06")
add("C12",
    "Seeded search over bank layouts (colliding MSB/LSB, blank entries, unique operator bytes) and bank-select/program/mode/drum-part/bank-API histories; a reference bank map + MIDI state resolves every probe note-on to the expected instrument by the three-step rule and compares with the timbre cached and the patch registers written for the chosen chip channel; rejected notes must not key on; drum pitch is decoded from the F-number writes.",
    "SFX kits (bank LSB 128..255) cannot be addressed through OPN2_BankId (fields <= 127), so API edits are limited to kits < 128. Each probe note starts from a silent synth (panic + 50 ms).",
    "deterministic simulation: seeded histories, reference-model (map) comparison on the register tap", "DESIGN.md 2/C12")
add("C19",
    "SysEx messages treated as packets on a lossy link: the recognised messages, correct and corrupted in transit (12 corruption kinds) plus random strings, delivered through opn2_rt_systemExclusive and inside a playing SMF, in every mode / controller state / with sounding and pedal-held notes / device ids 0..15; a reference written from the message definitions decides acceptance; rejected messages must leave the H1 snapshot bit-identical and cause no register write, accepted ones must show the documented effect.",
    "Roland/Yamaha messages addressed to 0x7F and messages with bit-7 data bytes are 'unspecified' (either verdict allowed, consistency still required). GM System Off: mode after it is not checked (the property does not say which mode follows).",
    "deterministic simulation: message corruption (loss/dup/flip) + reference decision procedure + state-unchanged oracle", "DESIGN.md 2/C19")
