#!/bin/bash
# tools/rerecord_fixed.sh <Cnn> <fix-commit> <class-substring> <replay-name> [seed]
# Re-records replays/fixed/<replay-name> by running the quick check on the tree just before <fix-commit> (scratch
# worktree /tmp/vm/repo + isolated copy of the machinery), shrinking only the class that matches.
C=$1; H=$2; CLS=$3; NAME=$4; SEED=${5:-20260928}
ROOT=$(cd "$(dirname "$0")/.." && pwd); VM=${VERIF_VM:-/tmp/vm}
mkdir -p $VM; rsync -a --delete --exclude build --exclude evidence --exclude replays --exclude seeded --exclude .git "$ROOT/" $VM/verif/
mkdir -p $VM/verif/evidence $VM/verif/replays; rm -f $VM/verif/replays/*.plan
[ -d $VM/repo ] || git -C /repo worktree add --detach $VM/repo HEAD >/dev/null 2>&1
git -C $VM/repo checkout -q -- . ; git -C $VM/repo checkout -q --detach "$H^"
(cd $VM/verif && VERIF_REPO=$VM/repo VERIF_SEED=$SEED VERIF_ONLY_CLASS="$CLS" ./check $C quick 2>&1 | grep "VIOLATION\|class=" | cut -c1-250)
F=$(grep -l "^# class .*$CLS" $VM/verif/replays/*.plan 2>/dev/null | head -1)
git -C $VM/repo checkout -q --detach $(git -C /repo rev-parse HEAD)
if [ -n "$F" ]; then cp "$F" "$ROOT/replays/fixed/$NAME"; echo "re-recorded $NAME from $F: $(sed -n 2p "$F")"; else echo "class '$CLS' not found on $H^"; exit 1; fi
