#!/bin/bash
# tools/thorough_sweep.sh [seconds-per-check] [seed] - thorough tier of every check, one after the other; evidence/<id>.thorough.json is kept
ROOT=$(cd "$(dirname "$0")/.." && pwd); cd "$ROOT"; SECS=${1:-420}; SEED=${2:-20260929}
for C in C01 C02 C03 C04 C05 C06 C07 C08 C09 C10 C11 C12 C13 C15 C16 C17 C18 C19 C20 C14; do
  T0=$(date +%s); OUT=$(VERIF_SEED=$SEED VERIF_SECONDS=$SECS ./check $C thorough 2>&1); RC=$?; T1=$(date +%s)
  echo "$C rc=$RC $((T1-T0))s $(echo "$OUT" | grep 'thorough: runs' | tr '\n' ' ' | cut -c1-300)"
  [ $RC -ne 0 ] && { echo "$OUT" | grep "VIOLATION\|class=\|HARNESS\|NOTE" | head -8 | cut -c1-300; mkdir -p /tmp/soak; cp replays/$C-$SEED-*.plan /tmp/soak/ 2>/dev/null; }
done
