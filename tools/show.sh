#!/bin/bash
# tools/show.sh <Cnn> <plan>: print the plan's ops (blobs shortened) and the sanitizer report of an in-process execution
ID=$1; PLAN=$2; LID=$(echo $ID | tr A-Z a-z)
grep "^#\|^cfg\|^op" $PLAN | cut -c1-220
export ASAN_OPTIONS="detect_leaks=0:handle_abort=1:allocator_may_return_null=0:max_allocation_size_mb=320:external_symbolizer_path=/usr/bin/llvm-symbolizer-14:print_legend=0"
export UBSAN_OPTIONS="print_stacktrace=1:halt_on_error=1:external_symbolizer_path=/usr/bin/llvm-symbolizer-14"
timeout 30 /verif/build/asan/$LID --exec $PLAN 2>&1 | grep -v "^    #[0-9]* 0x[0-9a-f]* in \(__\|main\|_start\|sim::\|C[0-9][0-9]::\|execApi\)" | grep "ERROR\|#[0-9]\|runtime error\|VERIF\|READ\|WRITE\|is located" | head -${3:-14}
