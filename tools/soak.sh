#!/bin/bash
# tools/soak.sh "<seeds>" [tier]   - every check on the unchanged tree under several batch seeds; any non-zero exit is listed
ROOT=$(cd "$(dirname "$0")/.." && pwd); cd "$ROOT"; SEEDS=${1:-"1 2 3 4 5"}; TIER=${2:-quick}; BAD=0
for S in $SEEDS; do for C in C01 C02 C03 C04 C05 C06 C07 C08 C09 C10 C11 C12 C13 C14 C15 C16 C17 C18 C19 C20; do
  OUT=$(VERIF_SEED=$S ./check $C $TIER 2>&1); RC=$?
  if [ $RC -ne 0 ]; then BAD=$((BAD+1)); echo "seed $S $C rc=$RC"; echo "$OUT" | grep "VIOLATION\|class=\|HARNESS" | head -5 | cut -c1-300; mkdir -p /tmp/soak; cp replays/$C-$S-*.plan /tmp/soak/ 2>/dev/null; fi
done; echo "seed $S done"; done; echo "soak: $BAD non-zero exits"
