#!/bin/bash
# tools/seed_confirm.sh <Cnn> <k>
# Confirms a seeded regression delivered by a sub-agent in its scratch worktree /tmp/seed/<Cnn> (never in /repo):
#   unmodified tree: library builds, ctest passes, demo prints PROPERTY HOLDS
#   patched tree:    library builds, ctest passes, demo prints PROPERTY VIOLATED
# On success the change is stored as /verif/seeded/<Cnn>-<k>/ (patch.diff, demo.cpp, BUILD.txt, outputs, meta.json).
ID=$1; K=$2; WT=/tmp/seed/$ID; CH=$WT/OUT/change$K
ROOT=$(cd "$(dirname "$0")/.." && pwd)
[ -f "$CH/patch.diff" ] || { echo "$ID-$K: no patch"; exit 2; }
cd "$WT" || exit 2
git checkout -q -- src include
CC=$(grep -v '^#' "$CH/BUILD.txt" | sed -e ':a' -e '/\\$/N' -e 's/\\\n//' -e 'ta' | grep -E '(^|&& )(g\+\+|clang\+\+) ' | grep -m1 '_build/libOPNMIDI.a' | sed -E 's/^.*&& ((g|clang)\+\+)/\1/; s/ *#.*$//; s/ && .*$//')
[ -n "$CC" ] || { echo "$ID-$K: no compile line in BUILD.txt"; exit 2; }
CC=$(echo "$CC" | sed -E "s# -o +[^ ]+# -o OUT/change$K/demo#")
build() { cmake -G Ninja -S . -B _build -DWITH_UNIT_TESTS=ON -DCMAKE_BUILD_TYPE=RelWithDebInfo >/dev/null 2>&1 && cmake --build _build >/dev/null 2>&1; }
tests() { ctest --test-dir _build -j8 --timeout 900 2>&1 | grep -q "100% tests passed"; }
demo() { rm -f OUT/change$K/demo; eval "$CC" >/dev/null 2>&1 || return 9; timeout 600 ./OUT/change$K/demo > "$1" 2>&1; return 0; }
build || { echo "$ID-$K: clean build failed"; exit 1; }
tests || { echo "$ID-$K: clean tests fail"; exit 1; }
demo /tmp/seed/$ID.$K.clean.txt || { echo "$ID-$K: demo does not compile"; exit 1; }
git apply "$CH/patch.diff" || { echo "$ID-$K: patch does not apply"; git checkout -q -- src include; exit 1; }
LINES=$(git diff --numstat | awk '{a+=$1; d+=$2} END {print a+d}')
OK=1
build || { echo "$ID-$K: patched build failed"; OK=0; }
[ $OK = 1 ] && { tests || { echo "$ID-$K: patched tests FAIL"; OK=0; }; }
[ $OK = 1 ] && { demo /tmp/seed/$ID.$K.patched.txt || { echo "$ID-$K: demo does not compile (patched)"; OK=0; }; }
git checkout -q -- src include; build
[ $OK = 1 ] || exit 1
grep -q "PROPERTY HOLDS" /tmp/seed/$ID.$K.clean.txt && ! grep -q "PROPERTY VIOLATED" /tmp/seed/$ID.$K.clean.txt || { echo "$ID-$K: demo does not print PROPERTY HOLDS on the clean tree"; exit 1; }
grep -q "PROPERTY VIOLATED" /tmp/seed/$ID.$K.patched.txt || { echo "$ID-$K: demo does not print PROPERTY VIOLATED on the patched tree"; exit 1; }
D=$ROOT/seeded/$ID-$K; mkdir -p "$D"
cp "$CH/patch.diff" "$CH/demo.cpp" "$CH/BUILD.txt" "$D/"
cp /tmp/seed/$ID.$K.clean.txt "$D/output_unmodified.txt"; cp /tmp/seed/$ID.$K.patched.txt "$D/output_patched.txt"
python3 - "$CH/meta.json" "$D/meta.json" "$LINES" <<'PY'
import json,sys
try: m=json.load(open(sys.argv[1]))
except Exception: m={}
m['confirmed']={'builds':True,'existing_tests_pass':True,'demo_holds_unpatched':True,'demo_violated_patched':True,'changed_lines':int(sys.argv[3]),'how':'tools/seed_confirm.sh in the scratch worktree'}
json.dump(m,open(sys.argv[2],'w'),indent=1)
PY
echo "$ID-$K: confirmed ($LINES changed lines)"
