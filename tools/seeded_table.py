#!/usr/bin/env python3
# Generates the DESIGN.md section-12 table from seeded/*/meta.json + results.json
import json, os, glob
ROOT = os.path.dirname(os.path.dirname(os.path.abspath(__file__)))
rows = []
try: FP = json.load(open(os.path.join(ROOT, 'seeded', 'first_pass.json')))
except Exception: FP = {'first_pass': {}, 'strengthened_because_of': {}}
for d in sorted(glob.glob(os.path.join(ROOT, 'seeded', 'C*-*'))):
    sid = os.path.basename(d)
    try: m = json.load(open(os.path.join(d, 'meta.json')))
    except Exception: m = {}
    try: r = json.load(open(os.path.join(d, 'results.json')))
    except Exception: r = {}
    title = (m.get('title') or m.get('what_breaks') or '')[:110].replace('|', '/').replace('\n', ' ')
    files = ', '.join(os.path.basename(f) for f in (m.get('files') or []))[:60]
    caught = [c for c, v in sorted(r.items()) if v.get('caught')]
    missed = [c for c, v in sorted(r.items()) if not v.get('caught')]
    tgt = sid[:3]
    cls = ''
    if tgt in r and r[tgt].get('classes'): cls = r[tgt]['classes'][0][:70].replace('|', ' / ')
    elif caught and r[caught[0]].get('classes'): cls = r[caught[0]]['classes'][0][:70].replace('|', ' / ')
    tier = r.get(tgt, {}).get('tier', '')
    f1 = FP['first_pass'].get(sid, {}); first = 'yes' if f1.get('rc') == 1 else ('no (exit %s)' % f1.get('rc') if f1 else '?')
    rows.append((sid, title, files, first, ', '.join(caught) or '-', ', '.join(missed) or '-', cls, tier))
print("| seeded change | what it breaks | file | caught at first try | caught now by | run, not caught | first class reported |")
print("|---|---|---|---|---|---|---|")
for s in rows: print("| %s | %s | %s | %s | %s | %s | %s |" % s[:7])
n = len(rows); c = sum(1 for s in rows if s[0][:3] in s[4].split(', '))
f = sum(1 for s in rows if s[3] == "yes")
print("\n%d seeded changes: %d caught by the target property's quick check at the first try, %d after the strengthening described below." % (n, f, c))
for k, v in sorted(FP["strengthened_because_of"].items()): print("* **%s** - %s" % (k, v))
