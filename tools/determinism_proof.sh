#!/bin/bash
# tools/determinism_proof.sh [runs]  - every check: the same batch of seeds executed with 1, 4 and 16 workers and twice with 16;
# the order-independent digest of all (run index, event-log hash) pairs must be identical. Writes evidence/determinism.json
ROOT=$(cd "$(dirname "$0")/.." && pwd); cd "$ROOT"; N=${1:-1500}
echo "{" > evidence/determinism.json.tmp; first=1
for C in C01 C02 C03 C04 C05 C06 C07 C08 C09 C10 C11 C12 C13 C14 C15 C16 C17 C18 C19 C20; do
  R=$N; case $C in C13|C18) R=$((N/5));; C14) R=$((N/5));; C03|C20) R=$((N/2));; esac
  H=""; OK=true
  for W in 1 4 16 16; do
    if [ $C = C14 ]; then ./check C14 --show 0 >/dev/null 2>&1; VERIF_RUNS=$R VERIF_WORKERS=$W build/asan/c14 quick >/dev/null 2>&1; else VERIF_RUNS=$R VERIF_WORKERS=$W ./check $C quick >/dev/null 2>&1; fi
    h=$(grep -o '"batch_log_hash": "[0-9]*"' evidence/$C.json | grep -o '[0-9][0-9]*'); m=$(grep -o '"determinism_mismatches": [0-9]*' evidence/$C.json | grep -o '[0-9]*$')
    H="$H $W:$h"; [ -n "$PREV" ] && [ "$PREV" != "$h" ] && OK=false; [ "$m" != "0" ] && OK=false; PREV=$h
  done
  PREV=""
  echo "$C runs=$R$H equal=$OK"
  [ $first = 1 ] || echo "," >> evidence/determinism.json.tmp; first=0
  echo "  \"$C\": {\"runs\": $R, \"digests\": \"$H\", \"equal\": $OK}" >> evidence/determinism.json.tmp
done
echo "}" >> evidence/determinism.json.tmp; mv evidence/determinism.json.tmp evidence/determinism.json
